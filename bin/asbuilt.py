#!/usr/bin/env python3
"""prints the 'as built' table of DESIGN.md 0.7 from evidence/*.json (quick tier) and, if given, the log of a thorough run"""
import json, glob, re, sys
thor = {}
if len(sys.argv) > 1:
    for l in open(sys.argv[1], errors="replace"):
        m = re.match(r"(C\d\d) thorough: states=(\d+) transitions=(\d+) traces/behaviours replayed=(\d+) evaluations=(\d+) nontrivial=(\d+) violations=(\d+) wall=(\d+)s", l)
        if m:
            thor[m.group(1)] = m.groups()[1:]
print("| property | level | quick: TLC states / cases-behaviours replayed / evaluations / trace lines / wall | thorough: TLC states / replayed / evaluations / wall |")
print("|---|---|---|---|")
for f in sorted(glob.glob("/verif/evidence/C*.json")):
    e = json.load(open(f)); c = e["coverage"]
    tl = sum(r.get("lines", 0) for r in c.get("trace_runs", []) if isinstance(r, dict))
    t = thor.get(e["property_id"])
    print("| %s | %s | %s / %s / %s / %s / %ss | %s |" % (e["property_id"], e["level"], c.get("states"), c.get("traces_validated_against_impl"), c.get("evaluations"), tl or "-",
          round(e.get("wall_s", 0)), ("%s / %s / %s / %ss" % (t[0], t[2], t[3], t[6])) if t else "-"))
