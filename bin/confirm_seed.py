#!/usr/bin/env python3
"""confirm a seeded change delivered by a sub-agent, in a scratch worktree of /repo (removed afterwards):
   suite passes with the patch, demo fails with it and passes without it. Writes /verif/seeded/<id>/.
   usage: confirm_seed.py <seed-out-dir> <id> <property>"""
import json, os, re, shutil, subprocess, sys
src, sid, prop = sys.argv[1], sys.argv[2], sys.argv[3]
env = dict(os.environ, GOFLAGS="-mod=mod", GOPROXY="off", GOSUMDB="off", GOTOOLCHAIN="local")
wt = "/tmp/confirm-" + sid
subprocess.run(["git", "-C", "/repo", "worktree", "remove", "--force", wt], capture_output=True)
subprocess.run(["git", "-C", "/repo", "worktree", "add", "--detach", wt, "HEAD"], check=True, capture_output=True)
res = {}
try:
    demo = [f for f in os.listdir(src) if f.endswith(".go")]
    assert demo, "no demo"
    demo = demo[0]
    first = open(os.path.join(src, demo)).readline()
    m = re.search(r"place in:\s*(\S+)", first)
    pkg = m.group(1).strip("/") if m else "boltz"
    def sh(cmd):
        p = subprocess.run(cmd, cwd=wt, env=env, shell=True, capture_output=True, text=True)
        return p.returncode, (p.stdout + p.stderr)[-1500:]
    dst = os.path.join(wt, pkg, "zz_seed_demo_test.go")
    # demo without patch
    shutil.copy(os.path.join(src, demo), dst)
    rc, out = sh("go test -vet=off -count=1 ./%s/ -run 'Seed|seed|C[0-9][0-9]' 2>&1 | tail -5" % pkg)
    res["demo_without_patch"] = "pass" if "ok" in out and "FAIL" not in out else "FAIL: " + out[-300:]
    os.remove(dst)
    rc, out = sh("git apply %s" % os.path.join(src, "patch.diff"))
    res["applies"] = rc == 0
    rc, out = sh("go build ./... && go test -vet=off -count=1 ./... 2>&1 | tail -8")
    res["suite_with_patch"] = "pass" if "FAIL" not in out and rc == 0 else "FAIL: " + out[-400:]
    shutil.copy(os.path.join(src, demo), dst)
    rc, out = sh("go test -vet=off -count=1 ./%s/ -run 'Seed|seed|C[0-9][0-9]' 2>&1 | tail -15" % pkg)
    res["demo_with_patch"] = "fail (as required)" if "FAIL" in out else "UNEXPECTED PASS: " + out[-300:]
    ok = res["demo_without_patch"] == "pass" and res["applies"] and res["suite_with_patch"] == "pass" and res["demo_with_patch"].startswith("fail")
    res["confirmed"] = ok
    if ok:
        d = os.path.join("/verif/seeded", sid)
        os.makedirs(d, exist_ok=True)
        shutil.copy(os.path.join(src, "patch.diff"), d)
        shutil.copy(os.path.join(src, demo), os.path.join(d, demo))
        notes = os.path.join(src, "notes.md")
        needs = ""
        if os.path.exists(notes):
            shutil.copy(notes, d)
        meta = dict(id=sid, property=prop, demo=demo, demo_package=pkg, confirmed_by="bin/confirm_seed.py in scratch worktree " + wt,
                    ran=res, needs="see notes.md (trigger section)", detected_by=None)
        json.dump(meta, open(os.path.join(d, "meta.json"), "w"), indent=1)
finally:
    subprocess.run(["git", "-C", "/repo", "worktree", "remove", "--force", wt], capture_output=True)
print(sid, json.dumps(res))
