# Constant tables for the configurations of the store model (Store.tla / StoreSys.tla / StoreGen.tla).
# bin/check renders them into .cfg files in its scratch directory: one table per property family,
# with the exhaustive ("mc") and generator ("gen") variants and the quick / thorough bounds.
#
# Python value -> cfg syntax:  str -> "str",  bool -> TRUE/FALSE,  int -> int,
#                              set/frozenset/list -> { ... } (nested allowed),  Sub("Name") -> <- Name

class Sub(str):
    """constant overridden by a definition of the root module (sequences cannot be written in a cfg)"""

NIL = "~"
S = frozenset


def fs(*xs):
    return frozenset(xs)


BASE = dict(
    Ids=fs("p1", "p2"), Teams=fs("t1"),
    Names=fs("", "a", "b", "p1", "p2", "p3", "p4", "p5"), Nicks=fs("x", "y", ""), Roles=fs("r1", "r2", "r3", ""), Grades=fs("g1", "g2", ""),
    BadNames=fs(), BossMode="off", TeamMode="off", ChildExtended=False, LinksViaEntity=False,
    Ops=fs("create", "update", "delete"), MaxOps=2, MaxTx=6, TxKinds=fs("update"), SysCtxs=fs(False), Vias=fs("people"),
    NamePool=fs(), IdNames=True, NickPool=fs(NIL), RolePool=fs(fs()), BossPool=fs(NIL), TeamPool=fs(NIL), SysPool=fs(False),
    LeadPool=fs(False), GradePool=fs("g1"), LtPool=fs(fs(NIL)), FieldSets=Sub("FS_All"), VetoPool=fs(False), OpSysPool=fs(False), PrePool=fs(),
    CountPool=fs(), MaxRc=3, IdOrder=Sub("Order2"), WhereKinds=fs(), ChildFeatures=False, ChiefPool=fs(NIL), SysScope="parent",
)

THREE = dict(Ids=fs("p1", "p2", "p3"), IdOrder=Sub("Order3"))

FAMILIES = {}


def family(name, base=BASE, **kw):
    d = dict(base)
    d.update(kw)
    FAMILIES[name] = d
    return d


# ---- C03: unique / nullable unique / set index maintenance -------------------------------------------------
C03 = family("C03",
             NamePool=fs("", "a", "b"), IdNames=False, NickPool=fs(NIL, "x", ""),
             RolePool=fs(fs(), fs("r1"), fs("r1", "r3"), fs("r2", "r3")), FieldSets=Sub("FS_C03"))
family("C03_mc3", C03, **THREE, NickPool=fs(NIL, "x"), RolePool=fs(fs(), fs("r1"), fs("r1", "r2")), MaxTx=4)
family("C03_child", C03, Vias=fs("people", "staff"), GradePool=fs("g1", "g2", ""), NickPool=fs(NIL, "x"),
       RolePool=fs(fs(), fs("r1")), FieldSets=Sub("FS_C03x"))

# a set that is replaced by another one whose elements, written one after the other, give the same bytes (table ROLETAG of storechecks)
family("C03_tag", C03, NamePool=fs("a", "b"), NickPool=fs(NIL), RolePool=fs(fs(), fs("r3"), fs("r1", "r2"), fs("r1"), fs("r2", "r3")), FieldSets=Sub("FS_C03"))

# an index write the storage layer refuses (over-long key): the call fails, nothing is indexed
family("C03_long", C03, Names=fs("", "a", "b", "p1", "p2", "p3", "p4", "p5", "LONG"), BadNames=fs("LONG"), NamePool=fs("a", "LONG"),
       NickPool=fs(NIL, "x"), RolePool=fs(fs(), fs("r1")), FieldSets=Sub("FS_C03"))

# ---- C04: foreign keys ---------------------------------------------------------------------------------------
def c04(boss, team, **kw):
    return family("C04_%s_%s" % (boss, team), BASE, **THREE, Teams=fs("t1", "t2"),
                  BossMode=boss, TeamMode=team,
                  Ops=fs("create", "update", "delete", "createTeam", "deleteTeam"),
                  BossPool=fs(NIL) if boss == "off" else fs(NIL, "p1", "p2"),
                  TeamPool=fs(NIL) if team == "off" else fs(NIL, "t1", "t2"),
                  FieldSets=Sub("FS_C04"), **kw)


for b, t in [("idxNull", "off"), ("conNoneNull", "off"), ("off", "idx"), ("off", "idxNull"), ("off", "idxCascade"),
             ("off", "conNone"), ("off", "conNoneNull"), ("off", "conCascade"), ("off", "conCascadeNull"),
             ("idxNull", "idxCascade"), ("conNoneNull", "conCascadeNull"), ("idxNull", "conCascade"),
             # a cascading constraint on a reference into the same store: chains of bosses, a person that is its own boss, cycles
             ("conCascadeNull", "off"),
             # ... and a cascading fk *index* into the same store (not nullable: everybody has a boss, the first one itself)
             ("idxCascade", "off")]:
    c04(b, t)

# wide universes for generation only (no exhaustive run): cascades over many referrers inside busy transactions
FIVE = dict(Ids=fs("p1", "p2", "p3", "p4", "p5"), IdOrder=Sub("Order5"))
family("C04_wide_conCascade", BASE, **FIVE, Teams=fs("t1", "t2"), TeamMode="conCascade", BossMode="off",
       Ops=fs("create", "update", "delete", "createTeam", "deleteTeam"), TeamPool=fs("t1", "t2"), FieldSets=Sub("FS_C04"), MaxOps=6)
family("C04_wide_idxCascade", BASE, **FIVE, Teams=fs("t1", "t2"), TeamMode="idxCascade", BossMode="idxNull",
       Ops=fs("create", "update", "delete", "createTeam", "deleteTeam"), TeamPool=fs("t1", "t2"), BossPool=fs(NIL, "p1"), FieldSets=Sub("FS_C04"), MaxOps=6)

# two people, every call about the boss: cycles of bosses under a cascading fk index / constraint build up within a few calls
family("C04_cycle_idx", BASE, BossMode="idxCascade", Ops=fs("create", "update", "delete"), BossPool=fs("p1", "p2"), FieldSets=Sub("FS_C04"), MaxOps=6)
family("C04_cycle_con", BASE, BossMode="conCascadeNull", Ops=fs("create", "update", "delete"), BossPool=fs(NIL, "p1", "p2"), FieldSets=Sub("FS_C04"), MaxOps=6)

# both references cascade (team -> people -> people): a delete reaches the same person along two ways; DeleteWhere collects its ids first
family("C04_wide_tree", BASE, **FIVE, Teams=fs("t1"), TeamMode="conCascadeNull", BossMode="conCascadeNull",
       Ops=fs("create", "update", "delete", "deleteWhere", "createTeam", "deleteTeam"), WhereKinds=fs("all", "name"),
       TeamPool=fs(NIL, "t1"), BossPool=fs(NIL, "p1", "p2", "p3"), FieldSets=Sub("FS_C04"), MaxOps=7)

# ---- C05: link collections ---------------------------------------------------------------------------------
C05 = family("C05", BASE, Teams=fs("t1", "t2"),
             Ops=fs("create", "delete", "createTeam", "deleteTeam", "addLinks", "removeLinks", "setLinks", "addLink",
                    "removeLink", "rcInc", "rcDec", "rcSet"),
             CountPool=fs(0, 1, 3), MaxOps=3)
LINKOPS = fs("create", "delete", "createTeam", "deleteTeam", "addLinks", "removeLinks", "setLinks", "addLink", "removeLink")
RCOPS = fs("create", "delete", "createTeam", "deleteTeam", "rcInc", "rcDec", "rcSet")
family("C05_links", C05, Ops=LINKOPS, MaxOps=2)
family("C05_rc", C05, Ops=RCOPS, MaxOps=2, MaxRc=2, CountPool=fs(0, 2))
family("C05_links1", C05, Ops=LINKOPS, MaxOps=2, Teams=fs("t1"))
family("C05_rc1", C05, Ops=RCOPS, MaxOps=2, MaxRc=2, CountPool=fs(0, 2), Teams=fs("t1"))
# concentrated walks: few kinds of call, three teams, long transactions (several writes to the same link bucket in one transaction)
family("C05_setlinks", C05, Teams=fs("t1", "t2", "t3"), Ops=fs("create", "createTeam", "setLinks", "addLinks", "removeLinks"), MaxOps=5)
# single-link calls (AddLink / RemoveLink report whether something changed) over three teams, long transactions
family("C05_single", C05, Teams=fs("t1", "t2", "t3"), Ops=fs("create", "createTeam", "addLink", "removeLink", "addLinks"), MaxOps=6)
family("C05_entity", C05, LinksViaEntity=True, LtPool=fs(fs(), fs("t1"), fs("t1", "t2")),
       Ops=fs("create", "update", "delete", "createTeam", "deleteTeam", "addLinks", "removeLinks"), FieldSets=Sub("FS_C05"))

# ---- C06: all features, deletes ------------------------------------------------------------------------------
ALLOPS = fs("create", "update", "delete", "createTeam", "deleteTeam", "addLinks", "removeLinks", "setLinks", "rcInc", "rcDec")
C06 = family("C06", BASE, Teams=fs("t1", "t2"), BossMode="idxNull", TeamMode="idxNull", Vias=fs("people", "staff"),
             Ops=ALLOPS, NamePool=fs("a"), NickPool=fs(NIL, "x"), RolePool=fs(fs(), fs("r1", "r2")),
             BossPool=fs(NIL, "p1", "p2"), TeamPool=fs(NIL, "t1"), GradePool=fs("g1", "g2"), FieldSets=Sub("FS_C06"), MaxOps=3)
family("C06_links", BASE, Teams=fs("t1", "t2", "t3"), Ops=fs("create", "delete", "createTeam", "deleteTeam", "addLinks", "setLinks", "rcInc"),
       MaxOps=5, MaxRc=2)
family("C06_cascade", C06, BossMode="conNoneNull", TeamMode="conCascadeNull")
family("C06_where", C06, Ops=ALLOPS | fs("deleteWhere"), WhereKinds=fs("all", "name", "grade"), NamePool=fs("a", "b"), TeamPool=fs(NIL, "t1"))

# ---- C07 / C08: faults and events ----------------------------------------------------------------------------
C07 = family("C07", BASE, Teams=fs("t1"), BossMode="idxNull", TeamMode="idx", Vias=fs("people", "staff"),
             Names=fs("", "a", "b", "p1", "p2", "LONG"), BadNames=fs("LONG"),
             Ops=fs("create", "update", "delete", "createTeam", "deleteTeam", "commitAction", "preCommit", "callerError", "addLinks"),
             NamePool=fs("a", "LONG"), RolePool=fs(fs(), fs("r1"), fs(""), fs("r1", "LONGR")), Roles=fs("r1", "r2", "r3", "", "LONGR"),
             BossPool=fs(NIL, "p1", "p2"), TeamPool=fs(NIL, "t1"),
             Nicks=fs("x", "y", ""), VetoPool=fs(False, True), PrePool=fs("ok", "fail"), TxKinds=fs("update", "batch"),
             SysCtxs=fs(False, True), SysPool=fs(False, True), FieldSets=Sub("FS_C07"), MaxOps=3)
# writes the storage layer refuses (over-long index key, over-long or empty set element), through either store
family("C07_storage", C07, Ops=fs("create", "update", "delete", "callerError"), NamePool=fs("a", "b", "LONG"), RolePool=fs(fs(), fs("r1", "LONGR"), fs("")),
       VetoPool=fs(False), SysCtxs=fs(False), SysPool=fs(False), PrePool=fs(), BossPool=fs(NIL), TeamPool=fs(NIL), TeamMode="off", BossMode="off")
# references re-targeted to ids that do not exist (from nil, and from an existing target)
family("C07_fk", BASE, **THREE, BossMode="idxNull", TeamMode="idx", Teams=fs("t1", "t2"), Vias=fs("people", "staff"),
       Ops=fs("create", "update", "delete", "createTeam", "deleteTeam", "callerError"), BossPool=fs(NIL, "p1", "p2", "p3"), TeamPool=fs("t1", "t2"),
       FieldSets=Sub("FS_C04"), MaxOps=3)
# link calls with several keys some of which name no entity, in every position
family("C07_links", BASE, Teams=fs("t1", "t2", "t3"), Ops=fs("create", "createTeam", "deleteTeam", "addLinks", "setLinks", "removeLinks", "callerError"),
       TxKinds=fs("update", "batch"), MaxOps=3)
family("C07_entity", BASE, Teams=fs("t1", "t2", "t3"), LinksViaEntity=True, LtPool=fs(fs(), fs("t2"), fs("t1", "t2"), fs("t1", "t3"), fs("t1", "t2", "t3")),
       Ops=fs("create", "update", "createTeam", "deleteTeam", "callerError"), FieldSets=Sub("FS_C05"), MaxOps=3)
C08 = family("C08", BASE, Teams=fs("t1"), TeamMode="conCascadeNull", Vias=fs("people", "staff"),
             Ops=fs("create", "update", "delete", "createTeam", "deleteTeam", "commitAction", "preCommit", "callerError"),
             NamePool=fs("a"), NickPool=fs(NIL, "x"), TeamPool=fs(NIL, "t1"), GradePool=fs("g1", "g2"), LeadPool=fs(False, True),
             PrePool=fs("ok", "fail"), TxKinds=fs("update", "batch"), FieldSets=Sub("FS_C08"), MaxOps=3)

# ---- C15: parent / child -------------------------------------------------------------------------------------
C15 = family("C15", BASE, Vias=fs("people", "staff"), Ops=fs("create", "update", "delete", "deleteWhere"), WhereKinds=fs("all", "name", "grade"), NamePool=fs("a", ""), NickPool=fs(NIL, "x"), RolePool=fs(fs(), fs("r1")),
             GradePool=fs("g1", "g2", ""), LeadPool=fs(False, True), FieldSets=Sub("FS_C15"), MaxOps=2)
family("C15_ext", C15, ChildExtended=True)
# two names for two people: most updates of the name collide with the other entity's (a rejection raised by a parent index *after* the write)
C15_dup = family("C15_dup", C15, NamePool=fs("a", "b"), IdNames=False, NickPool=fs(NIL), RolePool=fs(fs()), GradePool=fs("g1", "g2"), LeadPool=fs(False),
                 Ops=fs("create", "update", "delete"), WhereKinds=fs())
family("C15_dup_ext", C15_dup, ChildExtended=True)

# ---- features registered on the child store (teams.chief -> staff with its delete constraint on staff; link collection staff.squads <-> teams.squadStaff)
CF = family("CF", BASE, **THREE, Teams=fs("t1", "t2"), ChildFeatures=True, ChiefPool=fs(NIL, "p1", "p2"), Vias=fs("people", "staff"),
            Ops=fs("create", "update", "delete", "deleteWhere", "createTeam", "updateTeam", "deleteTeam", "addLinks", "removeLinks", "setLinks", "callerError"),
            WhereKinds=fs("all"), NickPool=fs(NIL), GradePool=fs("g1", "g2"), LeadPool=fs(False), FieldSets=Sub("FS_C15"), MaxOps=3)

# ---- C16: system entities -----------------------------------------------------------------------------------
C16 = family("C16", BASE, Teams=fs("t1"), TeamMode="conCascadeNull", SysCtxs=fs(False, True), SysPool=fs(False, True), OpSysPool=fs(False, True),
             Vias=fs("people", "staff"), Ops=fs("create", "update", "delete", "createTeam", "deleteTeam"),
             NickPool=fs(NIL, "x"), TeamPool=fs(NIL, "t1"), FieldSets=Sub("FS_C16"), MaxOps=3)


family("C16_child", C16, SysScope="child")
# names that change (in the families above the name is the id): an update that passes every *other* check of the call
family("C16_names", C16, NamePool=fs("a", "b", "p3"), IdNames=False, NickPool=fs(NIL), GradePool=fs("g1", "g2"), TeamPool=fs(NIL), Ops=fs("create", "update", "delete"))

# bounds of the exhaustive runs, fitted to measured state counts (bin/size.py): quick finishes in well under a minute,
# thorough in minutes.  Generation (simulation) always uses the richer family tables above.
FS_ALL = Sub("FS_All")
MC_QUICK = {
    "CF": dict(Ids=fs("p1", "p2"), IdOrder=Sub("Order2"), Teams=fs("t1"), ChiefPool=fs(NIL, "p1"), MaxOps=2, GradePool=fs("g1"), FieldSets=FS_ALL, WhereKinds=fs(),
               Ops=fs("create", "update", "delete", "createTeam", "updateTeam", "deleteTeam", "addLinks", "removeLinks", "setLinks")),
    "C06": dict(MaxOps=1, Teams=fs("t1"), TeamPool=fs(NIL, "t1"), NickPool=fs(NIL), RolePool=fs(fs(), fs("r1")), BossPool=fs(NIL, "p1"), GradePool=fs("g1"), FieldSets=FS_ALL,
                Ops=fs("create", "update", "delete", "createTeam", "deleteTeam", "addLinks", "rcInc"), MaxRc=1),
    "C07": dict(MaxOps=2, RolePool=fs(fs(), fs("")), SysCtxs=fs(False), SysPool=fs(False), TxKinds=fs("update"), FieldSets=FS_ALL, BossPool=fs(NIL, "p1")),
    "C08": dict(MaxOps=2, NickPool=fs(NIL), LeadPool=fs(False), TxKinds=fs("update"), FieldSets=FS_ALL),
    "C15": dict(MaxOps=2, LeadPool=fs(False), NickPool=fs(NIL), FieldSets=FS_ALL),
    "C15_ext": dict(MaxOps=2, LeadPool=fs(False), NickPool=fs(NIL), FieldSets=FS_ALL),
    "C16": dict(MaxOps=2),
    "C05": dict(MaxOps=2),
}
MC_THOROUGH = {
    "CF": dict(Ids=fs("p1", "p2"), IdOrder=Sub("Order2"), MaxOps=2, GradePool=fs("g1"), FieldSets=FS_ALL, WhereKinds=fs(),
               Ops=fs("create", "update", "delete", "createTeam", "updateTeam", "deleteTeam", "addLinks", "removeLinks", "setLinks")),
    "C06": dict(MaxOps=2, Teams=fs("t1"), TeamPool=fs(NIL, "t1"), NickPool=fs(NIL), RolePool=fs(fs(), fs("r1")), BossPool=fs(NIL, "p1"), GradePool=fs("g1"), FieldSets=FS_ALL,
                Ops=fs("create", "update", "delete", "createTeam", "deleteTeam", "addLinks", "rcInc"), MaxRc=1),
    "C06_cascade": dict(MaxOps=2, Teams=fs("t1"), TeamPool=fs(NIL, "t1"), NickPool=fs(NIL), RolePool=fs(fs(), fs("r1")), BossPool=fs(NIL, "p1"), GradePool=fs("g1"), FieldSets=FS_ALL,
                        Ops=fs("create", "update", "delete", "createTeam", "deleteTeam", "addLinks", "rcInc"), MaxRc=1),
    # (measured: 1.0 M distinct states / 148 M transitions, 6 min at 16 workers; the unrestricted table does not finish in 20 min)
    "C07": dict(MaxOps=2, RolePool=fs(fs(), fs("")), SysCtxs=fs(False, True), SysPool=fs(False, True), TxKinds=fs("update"), FieldSets=FS_ALL, BossPool=fs(NIL, "p1")),
    "C08": dict(MaxOps=2),
    "C15": dict(MaxOps=2),
    "C15_ext": dict(MaxOps=2),
}


def mc_bounds(fam, tier):
    return (MC_QUICK if tier == "quick" else MC_THOROUGH).get(fam)


def render(consts):
    def r(v):
        if isinstance(v, Sub):
            return None
        if isinstance(v, bool):
            return "TRUE" if v else "FALSE"
        if isinstance(v, int):
            return str(v)
        if isinstance(v, str):
            return '"%s"' % v
        if isinstance(v, (set, frozenset, list, tuple)):
            return "{" + ", ".join(sorted(r(x) for x in v)) + "}"
        raise TypeError(v)
    lines = []
    for k in sorted(consts):
        v = consts[k]
        if isinstance(v, Sub):
            lines.append("  %s <- %s" % (k, v))
        else:
            lines.append("  %s = %s" % (k, r(v)))
    return "\n".join(lines)


def mc_cfg(fam, invariants, properties=(), extra=None, view="ViewNoObs"):
    c = dict(FAMILIES[fam])
    c["MaxTx"] = 1000000   # exhaustive runs are bounded by the finite state, not by the number of transactions (ntx is outside the VIEW)
    if extra:
        c.update(extra)
    out = ["SPECIFICATION Spec", "VIEW " + view, "CHECK_DEADLOCK FALSE"]
    out += ["INVARIANT " + i for i in invariants]
    out += ["PROPERTY " + p for p in properties]
    out += ["CONSTANTS", render(c)]
    return "\n".join(out) + "\n"


# generation-only overrides: longer transactions, so that several calls hit the same buckets inside one transaction
GEN_EXTRA = {"CF": dict(MaxOps=4), "C05": dict(MaxOps=4), "C05_entity": dict(MaxOps=4), "C06": dict(MaxOps=4), "C06_cascade": dict(MaxOps=4)}


def gen_cfg(fam, depth, fail_one_in, extra=None):
    c = dict(FAMILIES[fam])
    c.update(GEN_EXTRA.get(fam, {}))
    if extra:
        c.update(extra)
    c["Depth"] = depth
    c["MaxTx"] = depth      # never binding: a behaviour is bounded by Depth
    c["FailOneIn"] = fail_one_in
    out = ["INIT GenInit", "NEXT GenNext", "INVARIANT Emit", "CHECK_DEADLOCK FALSE", "CONSTANTS", render(c)]
    return "\n".join(out) + "\n"
