#!/bin/bash
# usage: gen.sh <workdir> <cfg> <num> <depth> <seed>   -> <workdir>/beh.ndjson
set -e
W=$1; CFG=$2; NUM=$3; DEPTH=$4; SEED=$5
mkdir -p $W; cp /verif/specs/*.tla /verif/specs/$CFG $W/
cd $W
timeout 600 tlc -workers 1 -simulate num=$NUM -depth $DEPTH -seed $SEED -metadir $W/meta -config $CFG StoreGen.tla > sim.out 2>&1 || true
python3 - <<'PY'
import json
n=0
with open('beh.ndjson','w') as o:
    for l in open('sim.out'):
        if l.startswith('"{'):
            o.write(json.loads(l)+"\n"); n+=1
print("behaviours", n)
PY
grep -v '^"{' sim.out | grep -i -A12 "error" | head -40
