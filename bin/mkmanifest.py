#!/usr/bin/env python3
"""writes /verif/MANIFEST.json from the table below (one place to keep it consistent with bin/check)"""
import json, os, subprocess, sys

VERIF = os.path.dirname(os.path.dirname(os.path.abspath(__file__)))

STORE_NOTE = ("Trusted base: TLC; the Go projection (harness/internal/project: raw bbolt walk + own decoder) and the replayer glue; "
              "bbolt's own transaction semantics. The model is bounded (2-3 ids, small value universes, <= 2-3 calls per transaction); "
              "behaviours replayed against the code are TLC-generated random walks of the same Next, not all of them. In the other direction "
              "(StoreTrace.tla) executions recorded from a random driver over the real stores (5 people x 3 teams, all features, hostile ids) are accepted "
              "by TLC iff every recorded call is a step of the specification with exactly the recorded result and state; the recorder's rendering of the "
              "file as a model state (storerun.DbJSON) is trusted, a binding self-test corrupts one recorded fact and requires the rejection of that line.")

CHECKS = {
    "C03": dict(cat="model_checking", ref="DESIGN.md 5/C03",
                text="Store.tla keeps the unique/set index buckets as explicit state maintained by the code's capture-old/delete-old/check/put-new protocol; TLC "
                     "checks exhaustively (bounded) that they mirror the entities in every reachable state, and TLC-generated behaviours are replayed on the real "
                     "stores with the raw index buckets, the index read API and the error class compared after every call.",
                technique="TLA+ model (Store/StoreSys) checked with TLC + TLC-generated behaviours replayed on the real library (state comparison per step) + "
                          "recorded executions of the real library validated by TLC against the same actions (StoreTrace.tla)"),
    "C04": dict(cat="model_checking", ref="DESIGN.md 5/C04",
                text="One exhaustive TLC run per fk wiring (fk index nullable/non-nullable/cascade, fk constraint restrict/cascade): back-reference sets exact, "
                     "targets exist, delete restricts or cascades exactly (a cascading reference into the same store included: chains, self references, cycles); generated behaviours replayed with plain and with hostile ids (quotes, backslashes, keywords).",
                technique="TLA+ model checked with TLC per wiring + replay of generated behaviours with a hostile id table + recorded executions validated by TLC (StoreTrace.tla)"),
    "C05": dict(cat="model_checking", ref="DESIGN.md 5/C05",
                text="Both sides of each link set and ref-count are separate model variables written by paired steps; TLC checks symmetry over all histories and, in "
                     "LinkMerge.tla, that the SetLinks merge (transcribed loop by loop) leaves exactly the requested set for all (current, requested) pairs; replay compares "
                     "both raw buckets, counts and return values.",
                technique="TLA+ model + transcribed merge algorithm checked with TLC; replay of generated behaviours; recorded executions validated by TLC (StoreTrace.tla)"),
    "C06": dict(cat="model_checking", ref="DESIGN.md 5/C06",
                text="NoGhosts (an absent id occurs in no variable) is an invariant of the all-features model; replay compares the complete raw projection after every call, "
                     "so any residue of a deleted id in the file is a difference, and re-created ids continue under full comparison.",
                technique="TLA+ invariant checked with TLC + replay with whole-file projection and raw residue scan + recorded executions validated by TLC (StoreTrace.tla)"),
    "C07": dict(cat="model_checking", ref="DESIGN.md 5/C07",
                text="Fault enumeration is the model's Next: every failure kind at every position of bodies of <= 3 calls, through Update, Batch and nested Update; replay "
                     "requires a non-nil error of an allowed class, a logically identical file after the roll-back and no listener/commit-action/tx-complete invocation.",
                technique="TLA+ transaction model (fault enumeration by Next) + replay with before/after file comparison + recorded executions validated by TLC (StoreTrace.tla)"),
    "C08": dict(cat="model_checking", ref="DESIGN.md 5/C08",
                text="The model accumulates the events of the successful calls of a transaction and delivers them on Commit only; replay registers eight listener styles on "
                     "three stores and compares the multiset of (store, type, id, state) each style received with the model, per transaction.",
                technique="TLA+ transaction/event model + replay with listener logs compared per commit + recorded executions (events per commit line) validated by TLC (StoreTrace.tla)"),
    "C15": dict(cat="model_checking", ref="DESIGN.md 5/C15",
                text="Child data is a separate model variable; calls are routed through either store as in the code; TLC checks child-within-parent and shared-index "
                     "invariants, replay compares what FindById/LoadById/IsEntityPresent/IterateIds/IterateValidIds/QueryIds show through the child store (plain and Extended()).",
                technique="TLA+ model checked with TLC + replay through both stores (incl. DeleteWhere) + recorded executions validated by TLC (StoreTrace.tla)"),
    "C16": dict(cat="model_checking", ref="DESIGN.md 5/C16",
                text="Action properties SysFlagFixed / OrdinaryCtxCannotTouchSystem checked by TLC over histories mixing contexts; replay passes the flag toggled on every update.",
                technique="TLA+ action properties checked with TLC + replay + recorded executions validated by TLC (StoreTrace.tla)"),
}

QNOTE = ("Trusted base: TLC evaluating Query.tla; the renderer (filter record -> ZitiQL text) and dataset loader of the harness; the value "
         "table (19-character alphabet, halves, hour ranks). Where the documents are silent the engine's reading is adopted and named in Query.tla.")
CHECKS.update({
    "C01": dict(cat="exploration", ref="DESIGN.md 5/C01", note=QNOTE,
                text="Spec-derived bounded-exhaustive: the filter semantics is an explicit TLA+ definition (Query.tla) evaluated by TLC over enumerated (dataset, filter) "
                     "cases; each case is run through every evaluation path of the engine (both scanners, explicit cursor, cursor-style iteration) and must equal the "
                     "specification's answer -- 'independent of the shortcut taken' is a checked statement. A pure function has no interesting transition system, so "
                     "this is exploration level, exhaustive within the enumerated atoms.",
                technique="TLA+ denotational specification evaluated by TLC as case generator/oracle; cases replayed through all query paths of the real engine"),
    "C02": dict(cat="exploration", ref="DESIGN.md 5/C02", note=QNOTE,
                text="Sorted/Page/count of Query.tla evaluated by TLC over all combinations of sort specifications (0-5 fields, both directions, ties, nulls), skip and "
                     "limit values incl. absent/negative/none/beyond the end; every case through both scan strategies and cursor-style iteration.",
                technique="TLA+ specification of sort/page/count evaluated by TLC; cases replayed through all query paths"),
    "C19": dict(cat="exploration", ref="DESIGN.md 5/C19", note=QNOTE,
                text="The same TLC-generated cases (non-set symbols) executed through objectz.ObjectStore and compared with the specification the bolt-backed store is "
                     "held to by C01/C02.",
                technique="TLA+ specification as common oracle; cases replayed through objectz"),
    "C20": dict(cat="exploration", ref="DESIGN.md 5/C20", note=QNOTE,
                text="Query!QSyms (TLC) gives the symbols each generated query references; all public/non-public assignments are wired into fresh stores and "
                     "ValidateSymbolsArePublic must accept iff all are public, naming a non-public symbol otherwise.",
                technique="TLA+ definition of referenced symbols evaluated by TLC; exhaustive publicity assignments replayed on the real validator"),
})

CHECKS.update({
    "C11": dict(cat="exploration", ref="DESIGN.md 5/C11", note="Trusted base: TLC evaluating Literal.tla; the 14-character alphabet table of the harness; Query.tla and the renderer for the store-backed part. Bounded: literal bodies up to 4 (quick) / 6 (thorough) code units; a fixed pool of literals against the bbolt-backed stores.",
                text="Escape/Unescape are explicit TLA+ operators; TLC proves the round trip for every string within the bound and enumerates every valid literal body with "
                     "its denotation; the decoder and the whole parse/evaluate pipeline must agree for every body, in every operand position; string literals as operands of "
                     "symbols backed by the real stores (own field, id, fields reached through a foreign key, map values, set elements) are judged by Query.tla. A pure function: "
                     "exploration level, exhaustive within the bound.",
                technique="TLA+ specification of the literal syntax; TLC-enumerated literal bodies replayed through ParseZqlString and ast.Parse/EvalBool; TLC-evaluated query cases (Query.tla) with literal operands replayed on the bbolt-backed stores"),
})

CHECKS.update({
    "C12": dict(cat="exploration", ref="DESIGN.md 5/C12", note="Trusted base: TLC evaluating BoolExpr.tla; the re-spelling renderer of the harness. Bounded: trees up to 3 (quick) / 4 (thorough) atoms. "
                "The shipped grammar gives and/or/not no relative precedence (known finding); the specification carries that reading as a named deviation so that all other grouping stays checked exactly.",
                text="Trees over and/or/not are enumerated by TLC with their truth tables; the rendering conventions (and above or, chains associative, not (P)) are shown "
                     "unambiguous by TLC; every tree is parsed and evaluated in several re-spellings (case, white space, redundant parentheses, word operators).",
                technique="TLA+ specification of grouping; TLC-enumerated expression trees replayed through ast.Parse/EvalBool in re-spellings"),
})

CHECKS.update({
    "C10": dict(cat="exploration", ref="DESIGN.md 5/C10", note="Trusted base: TLC evaluating Grammar.tla (a transcription of ZitiQl.g4 at token level); the lexeme table of the harness; the repository's lexer for confirming token kinds of a rendering. Bounded token-sequence length.",
                text="Membership in the language is an explicit TLA+ recogniser; TLC classifies all bounded token sequences, the real parser must reject every non-sentence "
                     "(incl. unknown characters) and never panic; every operator/operand type mix is parsed and evaluated on populated and empty stores without panic.",
                technique="TLA+ recogniser of the grammar evaluated by TLC over bounded-exhaustive token sequences; replay through zitiql/ast parse + evaluation"),
})

CHECKS.update({
    "C14": dict(cat="model_checking", ref="DESIGN.md 5/C14", note="Trusted base: TLC; the cursor constructions of the harness (how each library cursor is opened over the given set). Bounded: 6-element universe, operation sequences up to 2-3 (seek) / 4-8 (next) steps.",
                text="The cursor is an explicit state machine in TLA+; TLC checks the enumeration and seek laws of the property against it for every set, direction and "
                     "bounded operation sequence, and every one of these runs is replayed on each cursor kind the library hands out, comparing validity and current "
                     "element after every operation.",
                technique="TLA+ state machine + laws checked by TLC; every model run replayed on all cursor constructions of the library"),
})

CHECKS.update({
    "C13": dict(cat="exploration", ref="DESIGN.md 5/C13", note="Trusted base: TLC; the value table and the per-type comparison rules of the harness (cmd/vreplay/bucket.go). What TLA+ contributes is the stateful part -- frame condition, scalar/nested clashes, write sequences -- and the codec format; byte-level fidelity is checked for the table's tokens only.",
                text="Bucket.tla models checker-restricted writes with the frame condition as an action property; TLC emits all bounded write sequences, executed with the "
                     "real setters and read back in later transactions through every getter. Codec.tla states the compound-key format and its round trip (TLC), "
                     "compared byte for byte with the real codec at the varint and size boundaries.",
                technique="TLA+ models of the typed bucket and of the compound-key codec; TLC-enumerated write sequences / lists replayed on TypedBucket and Encode/DecodeStringSlice"),
})

CHECKS.update({
    "C09": dict(cat="model_checking", ref="DESIGN.md 5/C09", note="Trusted base: TLC; the raw-corruption writer and the projection of the harness. Bounded: 5 base states, sequences of up to 2 (quick) / 3 (thorough) corruptions of 14 kinds. Report texts are not compared.",
                text="Inconsistency facts and the required repair are explicit TLA+ definitions over Store's database record; TLC proves their coherence (facts iff inconsistent, "
                     "repair complete / idempotent / neutral on consistent states) over all corruption sequences within the bound, and every such pair is replayed on the "
                     "real file: soundness, completeness, read-only check mode, state after fix equal to the model's repair, convergent re-check.",
                technique="TLA+ model of inconsistencies and repair checked by TLC; all (base, corruption sequence) pairs replayed with raw corruption + CheckIntegrity"),
})

CHECKS.update({
    "C17": dict(cat="model_checking", ref="DESIGN.md 5/C17", note="Trusted base: TLC; the content-as-function-of-version driver and logical file comparison of the harness; bbolt. Uses the verif hook points restore.closed / restore.renamed / restore.opened as scheduler gates.",
                text="DbLife.tla models the sequential life cycle (snapshot marks the copy, restore, snapshot id, timeline id bookkeeping) with action properties checked by TLC "
                     "and every bounded behaviour replayed with whole-file comparison; the reload-lock protocol is model checked over all interleavings and bound to the code by a "
                     "gated schedule that starts transactions exactly during the file swap, plus a stress of concurrent transactions against repeated restores. A restore is two "
                     "steps (transfer window, swap): the replay holds a real RestoreFromReader in its window with a gated reader while it executes the calls the behaviour "
                     "puts there; two overlapping timeline requests after a restore must be explainable by the atomic action in some order. (Migration.tla and the nested "
                     "reload-lock observation ride along as notes outside the listed properties.)",
                technique="TLA+ model (sequential machine + lock protocol) checked by TLC; behaviours replayed on DbImpl; hook-gated schedule and stress for the concurrent clause"),
})

CHECKS.update({
    "C18": dict(cat="model_checking", ref="DESIGN.md 5/C18, 7", note="Trusted base: TLC; the version-decoding driver; Go's race detector for the data-race clause (a property of the Go memory model with no TLA+ counterpart -- observed on the instrumented conformance run, not decided by TLC); bbolt's MVCC.",
                text="Isolation.tla is model checked (one version per read transaction, no dirty reads) over all interleavings; recorded executions of the real library -- 8 "
                     "readers against a writer with multi-call and rolled-back transactions -- are validated by TLC against the same specification (trace acceptance with a "
                     "binding self-test), and the same run is executed under the race detector together with concurrent parse / symbol-resolution / error-helper calls.",
                technique="TLA+ model checked by TLC + traces recorded from the real code validated by TLC; race detector on the conformance driver"),
})

NOT_YET = {
    "C01": "check under construction in this session (Query.tla); not claimed until it runs clean on the unchanged tree",
    "C02": "check under construction (Query.tla / ScanAlgo.tla)",
    "C09": "check under construction (Integrity.tla)",
    "C10": "check under construction (Grammar.tla)",
    "C11": "check under construction (Grammar.tla)",
    "C12": "check under construction (Grammar.tla)",
    "C13": "check under construction (Bucket.tla)",
    "C14": "check under construction (Cursor.tla)",
    "C17": "check under construction (DbLife.tla)",
    "C18": "check under construction (Isolation.tla)",
    "C19": "check under construction (Query.tla)",
    "C20": "check under construction (Query.tla)",
}


def main():
    extra = {}
    p = os.path.join(VERIF, "bin", "manifest_extra.json")
    if os.path.exists(p):
        extra = json.load(open(p))
    checks = []
    for pid in sorted(CHECKS):
        c = CHECKS[pid]
        checks.append(dict(
            property_id=pid,
            quick_cmd="python3 bin/check %s quick" % pid,
            thorough_cmd="python3 bin/check %s thorough" % pid,
            evidence_file="evidence/%s.json" % pid,
            replay_cmd_template="python3 bin/check %s --replay {path}" % pid,
            engine="bin/check",
            level_claimed=dict(category=c["cat"], text=c["text"], design_ref=c["ref"]),
            level_note=c.get("note", STORE_NOTE),
            technique=c["technique"]))
    hooks_commits = extra.get("hook_commits", [])
    m = dict(
        version=1,
        setup_cmd="cd /verif/harness && cp /repo/go.sum go.sum && GOFLAGS=-mod=mod GOPROXY=off GOSUMDB=off GOTOOLCHAIN=local go build -tags verif ./...",
        hooks=dict(guard="verif", enable="go build -tags verif (bin/check builds the harness against /repo's working tree with the tag on)",
                   baseline_off_cmd="cd /repo && GOFLAGS=-mod=mod GOPROXY=off GOSUMDB=off go test -json -vet=off -count=1 -timeout 25m ./...",
                   source_commits=hooks_commits, add_only=True),
        engines=[dict(name="bin/check", path="bin/check", serves_properties=sorted(CHECKS),
                      kind_free_text="python orchestrator: TLC exhaustive runs of specs/*.tla, TLC-generated behaviours replayed by harness/cmd/vreplay (Go) against /repo, evidence + exit protocol")],
        checks=checks,
        notes="Explicit TLA+ specifications in specs/ (Store, StoreSys, StoreGen, LinkMerge, ...); DESIGN.md explains the approach; known_findings.txt lists findings and fixes.",
        not_applicable=[dict(property_id=k, reason=v) for k, v in sorted(NOT_YET.items()) if k not in CHECKS])
    json.dump(m, open(os.path.join(VERIF, "MANIFEST.json"), "w"), indent=1)
    print("MANIFEST.json: %d checks, %d not claimed" % (len(checks), len(m["not_applicable"])))


if __name__ == "__main__":
    main()
