# Checks of the query family (C01 C02 C19 C20): Query.tla / QueryCases.tla
#   TLC enumerates (dataset, query) cases and evaluates the specification's Answer on each;
#   cmd/vreplay runs every case through every evaluation path of the real engine.
import json, os
from vlib import Inconclusive, run_json, CORES

MODES = {"C01": ["scalar", "set", "bool", "subq", "big"], "C02": ["page"], "C19": ["scalar", "bool", "page"], "C20": []}


def cases_cfg(mode, dev):
    return ("INIT Init\nNEXT Next\nINVARIANT Emit\nCHECK_DEADLOCK FALSE\nCONSTANT Mode = \"%s\"\nCONSTANT Dev = {%s}\n"
            % (mode, ", ".join('"%s"' % d for d in sorted(dev))))


def gen_cases(ctx, mode, dev, tag=""):
    beh, n = ctx.tlc_bfs_emit("cases-%s%s" % (mode, tag), "QueryCases", cases_cfg(mode, dev), workers=min(CORES, 8))
    ctx.cov["states"] += n
    ctx.cov["transitions"] += n
    ctx.cov["mc_runs"].append(dict(name="cases-" + mode, module="QueryCases", states=n, transitions=n, ok=True))
    return beh, n


def datasets(ctx, dev):
    path, n = ctx.tlc_bfs_emit("datasets", "QueryCases", cases_cfg("datasets", dev), workers=1)
    return path


def run_cases(ctx, bindir, ds, cases, tag):
    d = ctx.sub("qrun-" + tag)
    return run_json([os.path.join(bindir, "vreplay"), "query", "--datasets", ds, "--in", cases, "--scratch", d,
                     "--workers", str(min(CORES, 8)), "--max-mismatches", "200"])


# ---- named deviations (known findings): probed on their minimal input with the strict specification
DEVS = {
    "boolNullIsFalse": dict(sig="dev:boolNullIsFalse", props=("C01", "C19")),
}


BOLT_PATHS = ("QueryIds", "QueryIdsC", "QueryIdsC-again", "QueryWithCursorC", "IterateIds", "SortedScan", "Child", "ChildExt")


def probe_devs(ctx, bindir, paths):
    """which of the named deviations does the tree have (on the evaluation paths this property owns)?  The probe cases are
    the deviation's minimal inputs, judged by the strict specification; a listed one is reported as KNOWN-FINDING."""
    ds = datasets(ctx, set())
    cases, n = gen_cases(ctx, "probe", set(), tag="-strict")
    rep = run_cases(ctx, bindir, ds, cases, "probe")
    dev = set()
    if any(s.split(":")[0] in paths for s in rep["by_sig"]):
        dev.add("boolNullIsFalse")
        sample = [m for m in rep["mismatches"] if m["path"] in paths][:1]
        if ctx.prop in DEVS["boolNullIsFalse"]["props"]:      # (for the other properties the probe only selects the specification variant)
          ctx.violation(DEVS["boolNullIsFalse"]["sig"], "bool comparison with a null / non-bool operand: %s" % (
            sample and "%s returned %s, documented semantics give %s" % (sample[0]["query"], sample[0]["got"], sample[0]["want"])), dict(mismatch=sample))
    return dev, ds


def judge(ctx, bindir, rep, ds, cases_path, owner, paths=None):
    ctx.cov["evaluations"] += rep["cases"]
    ctx.cov["traces_validated_against_impl"] += rep["cases"]
    ctx.cov["replay_runs"].append(dict(cases=rep["cases"], mismatches=rep["mismatch_count"], nontrivial=rep["distinct_nontrivial"]))
    ctx.cov["distinct_nontrivial"] += rep["distinct_nontrivial"]
    for c in rep.get("sample_cases") or []:
        ctx.add_sample(dict(ds=c["ds"], query=c["q"], expect=c["ids"], count=c["count"]))
    seen = set()
    for m in rep.get("mismatches") or []:
        owners = set(m["owners"].split(","))
        if owner not in owners or (paths and m["path"] not in paths):
            ctx.cov["foreign_divergence"] += 1
            continue
        if m["sig"] in seen:
            continue
        seen.add(m["sig"])
        # reproduce: the single case again
        line = None
        with open(cases_path) as f:
            for i, l in enumerate(f):
                if i == m["case"]:
                    line = l
                    break
        d = ctx.sub("qrepro")
        one = os.path.join(d, "one.ndjson")
        open(one, "w").write(line)
        again = run_json([os.path.join(bindir, "vreplay"), "query", "--datasets", ds, "--in", one, "--scratch", d, "--workers", "1"])
        history = False
        if not any(x["sig"] == m["sig"] for x in again.get("mismatches") or []):
            # the answer may depend on the queries that ran before on the same store object (state leaking between queries):
            # re-execute the whole prefix of the case file sequentially on one fresh environment
            pre = os.path.join(d, "prefix.ndjson")
            with open(cases_path) as f, open(pre, "w") as o:
                for i, l in enumerate(f):
                    o.write(l)
                    if i >= m["case"] + 200:
                        break
            again = run_json([os.path.join(bindir, "vreplay"), "query", "--datasets", ds, "--in", pre, "--scratch", d, "--workers", "1"])
            if not any(x["sig"] == m["sig"] for x in again.get("mismatches") or []):
                raise Inconclusive("query mismatch %s did not reproduce (alone or after its prefix)" % m["sig"])
            history = True
        ctx.violation("query:" + m["sig"], "[%s] %s via %s: want %s (count %s) got %s (count %s) %s" % (
            m["ds"], m["query"], m["path"], m["want"], m["want_count"], m["got"], m["got_count"], m.get("err", "")),
            dict(case=json.loads(line), mismatch=m, datasets=ds, history_dependent=history))
    # mismatches beyond the sampled ones
    extra = [s for s, n in rep["by_sig"].items() if s not in seen]
    return extra


ALPHABET = " \"-.0123456789AB\\ab"


def enc(text):
    return "<<" + ", ".join(str(ALPHABET.index(c) + 1) for c in text) + ">>"


def rand_module(seed, k):
    """QueryRand.tla with k random datasets: rows over the value pools of QueryCases (nulls, ties, case variants, numeric strings, self references,
    empty sets, big floats, the zero time), written out as plain records"""
    import random
    rng = random.Random(seed)
    nil = '[t |-> "nil"]'
    S = lambda x: '[t |-> "s", v |-> %s]' % enc(x)
    N = lambda x: '[t |-> "n", v |-> %d]' % (2 * x)
    F = lambda x2: '[t |-> "f", v |-> %d]' % x2
    B = lambda x: '[t |-> "b", v |-> %s]' % ("TRUE" if x else "FALSE")
    D = lambda x: '[t |-> "d", v |-> %d]' % x
    strs = ["", "a", "ab", "A", "AB", "b", "1", "10", "1.5", "a b", 'a"b', "a\\b", "-1", "bb", "B", "aA"]
    pick = lambda pool, pnil: nil if rng.random() < pnil else rng.choice(pool)
    out = []
    for di in range(k):
        nrows = rng.randint(4, 7)
        ids = rng.sample(["a", "aa", "ab", "b", "A", "AB", "1", "10", "ba", "bb", "a b", "B", "0", "-1"], nrows)
        keys = ["r%d" % (i + 1) for i in range(nrows)]
        pids = rng.sample(["2", "20", "2.5", "a2", "A2"], 3)
        pkeys = ["q1", "q2", "q3"]
        rows = []
        for kx in keys:
            sval = pick([S(x) for x in strs], 0.2)
            n = pick([N(x) for x in range(-2, 12)], 0.2)
            m = pick([N(x) for x in range(-2, 12)], 0.2)
            f = pick([F(x) for x in list(range(-4, 41)) + [5000000]], 0.2)
            b = pick([B(True), B(False)], 0.3)
            t = pick([D(0), D(1), D(2), D(3), D(-1000), D(1000)], 0.25)
            roles = "{" + ", ".join(enc(x) for x in rng.sample(strs[:10], rng.randint(0, 3))) + "}"
            boss = '""' if rng.random() < 0.3 else '"%s"' % rng.choice(keys)
            peers = "{" + ", ".join('"%s"' % x for x in rng.sample(keys, rng.randint(0, min(3, nrows)))) + "}"
            anyv = [S(x) for x in strs[:9]] + [N(x) for x in range(-1, 4)] + [F(x) for x in (-1, 0, 3, 4, 5000000)]
            tags = "[k |-> %s, j |-> %s, q |-> %s]" % (pick(anyv, 0.3), pick(anyv, 0.3), pick([B(True), B(False), D(0), D(1), D(3)], 0.4))
            rows.append('%s |-> [s |-> %s, n |-> %s, m |-> %s, f |-> %s, b |-> %s, t |-> %s, roles |-> %s, boss |-> %s, peers |-> %s, tags |-> %s]'
                        % (kx, sval, n, m, f, b, t, roles, boss, peers, tags))
        of = ", ".join('%s |-> {%s}' % (kx, ", ".join('"%s"' % p for p in rng.sample(pkeys, rng.randint(0, 3)))) for kx in keys)
        prow = ", ".join('%s |-> [s |-> %s]' % (pk, pick([S(x) for x in strs[:8]], 0.25)) for pk in pkeys)
        out.append('[ name |-> "R%d", names |-> [%s], row |-> [%s],\n    pl |-> [of |-> [%s], row |-> [%s], names |-> [%s]] ]' % (
            di + 1, ", ".join("%s |-> %s" % (kx, enc(i)) for kx, i in zip(keys, ids)), ",\n      ".join(rows), of, prow,
            ", ".join("%s |-> %s" % (pk, enc(i)) for pk, i in zip(pkeys, pids))))
    return ("----------------------------- MODULE QueryRand -----------------------------\n(* generated: seed %d, %d datasets *)\nEXTENDS Integers\n"
            "RandDatasets == {\n  %s }\n=============================================================================\n" % (seed, k, ",\n  ".join(out)))


def check_modes(ctx, bindir, prop, modes, paths=None, rand=0):
    if rand:
        ctx.extra_specs = {"QueryRand.tla": rand_module(ctx.seed, rand)}
        ctx.cov["random_datasets"] = rand
    dev, ds = probe_devs(ctx, bindir, paths or BOLT_PATHS)
    ctx.cov["deviations_in_effect"] = sorted(dev)
    for mode in modes:
        cases, n = gen_cases(ctx, mode, dev)
        rep = run_cases(ctx, bindir, ds, cases, mode)
        judge(ctx, bindir, rep, ds, cases, prop, paths)


def check_public(ctx, bindir, modes=("scalar", "set", "bool", "subq", "sortsyms")):
    """C20: for every query of the case files and every assignment public / non-public of the symbols it references
    (QSyms from TLC), ValidateSymbolsArePublic accepts iff all are public and names a non-public one otherwise"""
    for mode in modes:
        cases, n = gen_cases(ctx, mode, {"boolNullIsFalse"})
        rep = run_json([os.path.join(bindir, "vreplay"), "public", "--in", cases])
        ctx.cov["evaluations"] += rep["assignments"]
        ctx.cov["traces_validated_against_impl"] += rep["cases"]
        ctx.cov["distinct_nontrivial"] += rep["distinct_nontrivial"]
        ctx.cov["replay_runs"].append({k: rep[k] for k in ("cases", "assignments", "distinct_nontrivial", "mismatch_count")})
        seen = set()
        for m in rep.get("mismatches") or []:
            if m["sig"] in seen:
                continue
            seen.add(m["sig"])
            ctx.violation("public:" + m["sig"], "%s with non-public %s: %s %s" % (m["query"], m["non_public"], m["kind"], m["err"]), dict(mismatch=m, mode=mode))
        with open(cases) as f:
            l = f.readline()
            if l:
                c = json.loads(l)
                ctx.add_sample(dict(query=c["q"], symbols=c["syms"]))
