#!/bin/bash
# runs every seeded change against its property's check (quick by default) and records the outcome in seeded/<id>/meta.json
tier=${1:-quick}
cd /verif
for d in seeded/*/; do
  id=$(basename $d); prop=${id%%-*}
  line=$(bin/seedtest.sh $id $tier 2>&1 | head -1)
  echo "$line" | cut -c1-220
  python3 - "$id" "$tier" "$line" <<'PY'
import json, sys
id, tier, line = sys.argv[1:4]
p = "/verif/seeded/%s/meta.json" % id
m = json.load(open(p))
m.setdefault("detection", {})[tier] = dict(detected=("exit=1" in line), result=line[:400])
m["detected_by"] = "python3 bin/check %s %s" % (m["property"], tier) if "exit=1" in line else m.get("detected_by")
json.dump(m, open(p, "w"), indent=1)
PY
done
