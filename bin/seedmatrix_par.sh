#!/bin/bash
# measures every seeded change against its property's check, several at a time: each worker owns a scratch worktree of /repo
# (under /tmp, removed at the end), applies one seeded change there and runs `VERIF_REPO=<worktree> bin/check <prop> <tier>`.
# /repo itself is not touched; evidence files are not written (vlib.ALT_REPO).  Results go to seeded/<id>/meta.json.
# usage: seedmatrix_par.sh [tier] [workers] [seed ids...]      (VROOT=<copy of /verif>: run the checks from a snapshot, so that /verif can be edited meanwhile)
tier=${1:-quick}; workers=${2:-4}; shift 2 2>/dev/null
cd /verif
ids=("$@"); [ ${#ids[@]} -eq 0 ] && ids=($(ls seeded))
export tier
one() {
  id=$1; slot=$2; prop=${id%%-*}; wt=/tmp/seedpar/w$slot
  patch=/verif/seeded/$id/patch.diff; [ -f /verif/seeded/$id/patch_rebased.diff ] && patch=/verif/seeded/$id/patch_rebased.diff
  git -C $wt checkout -q -- . ; git -C $wt clean -fdq
  if ! git -C $wt apply $patch 2>/dev/null; then line="$id ($prop $tier): PATCH DOES NOT APPLY"; else
    out=$(cd ${VROOT:-/verif} && VERIF_REPO=$wt timeout 3000 python3 bin/check $prop $tier 2>&1); rc=$?
    line="$id ($prop $tier): exit=$rc $(echo "$out" | grep -c '^VIOLATION') violation lines; $(echo "$out" | grep -m1 -A1 '^VIOLATION' | tail -1 | cut -c1-260)"
    [ $rc -eq 2 ] && line="$line $(echo "$out" | grep INCONCLUSIVE | head -1 | cut -c1-200)"
  fi
  git -C $wt checkout -q -- .
  echo "$line" | cut -c1-330
  python3 - "$id" "$tier" "$line" <<'PY'
import json, sys
id, tier, line = sys.argv[1:4]
p = "/verif/seeded/%s/meta.json" % id
m = json.load(open(p))
m.setdefault("detection", {})[tier] = dict(detected=("exit=1" in line), result=line[:400])
m["detected_by"] = "python3 bin/check %s %s" % (m["property"], tier) if "exit=1" in line else m.get("detected_by")
json.dump(m, open(p, "w"), indent=1)
PY
}
export -f one
mkdir -p /tmp/seedpar
for k in $(seq 1 $workers); do git -C /repo worktree remove --force /tmp/seedpar/w$k 2>/dev/null; git -C /repo worktree add -q --detach /tmp/seedpar/w$k HEAD; done
# static assignment: seed i goes to slot (i mod workers)+1; slots run in parallel, each sequentially
for k in $(seq 1 $workers); do
  ( i=0; for id in "${ids[@]}"; do i=$((i+1)); [ $(( (i % workers) + 1 )) -eq $k ] && one $id $k; done ) &
done
wait
for k in $(seq 1 $workers); do git -C /repo worktree remove --force /tmp/seedpar/w$k; done
git -C /repo worktree prune
