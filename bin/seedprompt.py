#!/usr/bin/env python3
# prints the prompt given to a mutation sub-agent for one property (property text only; nothing from /verif)
import json, sys
pid = sys.argv[1]; n = sys.argv[2] if len(sys.argv) > 2 else "2"
off = int(sys.argv[3]) if len(sys.argv) > 3 else 0
wtname = sys.argv[4] if len(sys.argv) > 4 else pid
for l in open('/verif/properties.jsonl'):
    p = json.loads(l)
    if p['id'] == pid:
        break
else:
    sys.exit("no such property")
wt = f"/tmp/seed/{wtname}"
print(f"""You are helping test a verification tool for the Go library openziti/storage (an entity/CRUD framework over bbolt with a filter DSL). A scratch git worktree of the library is at {wt} (pinned commit, builds and all tests pass offline). Work ONLY inside {wt}; never touch /repo or /verif and do not read anything under /verif.

Environment for every shell call:  export GOFLAGS=-mod=mod GOPROXY=off GOSUMDB=off GOTOOLCHAIN=local   (no network; nothing can be fetched). The test suite is run with:  cd {wt} && go test -vet=off -count=1 ./...

Here is a semantic property that the library is supposed to satisfy:

  id: {p['id']}
  title: {p['title']}
  statement: {p['statement']}
  quantified over: {p['quantifier']['text']}
  relevant files: {', '.join(p['anchors']['files'])}

TASK: produce {n} DIFFERENT, independent source changes (numbered {off+1}..{off+int(n)}) ("seeded bugs") to the library (non-test .go files under {wt}, not _test.go files, not generated parser code unless necessary) such that each one:
  (a) still compiles (go build ./... and go vet-less test compile),
  (b) still passes the ENTIRE existing test suite (command above) - check this by actually running it,
  (c) makes the library violate the property above, in a way a realistic programming mistake or plausible refactoring/optimisation could (off-by-one, forgotten branch, wrong variable, swapped order, missing cleanup, stale cache, wrong error return ...),
  (d) needs something SPECIFIC to manifest - a particular multi-step sequence of operations, a particular interleaving, a fault at a particular point, an unusual input value, or two cooperating sites that each look fine alone - NOT something that any ordinary use exposes at once. Subtle is better than blatant, but it must be a real violation of the property as stated (not of something stricter).
  Important: the unchanged library may already violate parts of this property for some inputs; your change must introduce a NEW violation that your demonstration shows (the demo must PASS on the unchanged tree and FAIL with your change).

For each change i ({off+1}..{off+int(n)}) deliver, under {wt}/seed_out/{pid}-i/ :
  - patch.diff : the change as a unified diff produced by `git -C {wt} diff` (only library source, applies with `git apply` to the pinned commit). Each patch must be independent (apply to the clean tree by itself).
  - a demonstration: a Go test file (e.g. demo_test.go, state in which package directory it has to be placed, as a comment in its first line like `// place in: boltz/`) or a small main program, that FAILS with the change and PASSES without it. You may use the test helpers/fixtures that exist in the package's _test files.
  - notes.md : what the change does, why the existing tests do not notice, what exactly is needed for it to manifest, and the exact commands you ran with their results (suite with change: pass; demo without change: pass; demo with change: fail).
When done, leave the worktree clean of your library edits (git -C {wt} checkout -- . ; the seed_out directory stays, untracked). Finally reply with a short summary listing each change (file/function touched, one line on the trigger).""")
