#!/bin/bash
# runs every check's tier on the unchanged tree with several VERIF_SEED values, a few at a time (no evidence is written: VERIF_REPO=/repo
# makes vlib build in its scratch and keep the evidence there).  Any line not ending in "exit=0" is a false alarm or a flaky check.
# usage: seedsweep.sh <tier> <parallel> <seed>...
tier=${1:-quick}; par=${2:-3}; shift 2
cd ${VROOT:-/verif}      # (VROOT=<copy of /verif>: sweep a snapshot while /verif is being edited)
for seed in "$@"; do for p in C01 C02 C03 C04 C05 C06 C07 C08 C09 C10 C11 C12 C13 C14 C15 C16 C17 C18 C19 C20; do echo "$seed $p"; done; done |
  xargs -P $par -L 1 bash -c 'out=$(VERIF_REPO=/repo VERIF_SEED=$0 timeout 7000 python3 bin/check $1 '$tier' 2>&1); rc=$?; echo "seed=$0 $1 '$tier' exit=$rc $(echo "$out" | grep -m1 -A1 "^VIOLATION\|^INCONCLUSIVE" | tr "\n" " " | cut -c1-300)"'
