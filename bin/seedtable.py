#!/usr/bin/env python3
"""prints the markdown table of seeded changes (DESIGN.md 0.6) from seeded/*/meta.json and the first heading of notes.md"""
import glob, json, os, re
rows = []
for d in sorted(glob.glob("/verif/seeded/*/"), key=lambda p: (os.path.basename(p[:-1]).split("-")[0], int(os.path.basename(p[:-1]).split("-")[1]))):
    sid = os.path.basename(d[:-1])
    m = json.load(open(d + "meta.json"))
    title = ""
    if os.path.exists(d + "notes.md"):
        for l in open(d + "notes.md"):
            if l.startswith("#"):
                title = re.sub(r"^#+\s*(%s\s*[:\-–—]*\s*)?" % re.escape(sid), "", l.strip()).strip()
                break
    det = m.get("detection", {})
    q = det.get("quick", {})
    res = q.get("result", "")
    first = re.sub(r"^.*violation lines;\s*", "", res)[:110].replace("|", "/")
    other = det.get("quick_other_property")
    where = "quick" if q.get("detected") else ("thorough" if det.get("thorough", {}).get("detected") else ("quick of `%s`" % other["check"].split()[-2] if other else "NOT DETECTED"))
    if other and not q.get("detected"):
        first = other["result"][:110]
    rows.append("| %s | %s | %s | %s |" % (sid, title[:95].replace("|", "/"), where, first))
print("| seed | change | caught by `bin/check <prop>` at | first report |")
print("|---|---|---|---|")
print("\n".join(rows))
