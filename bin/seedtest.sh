#!/bin/bash
# usage: seedtest.sh <seed-id> [tier]   apply /verif/seeded/<id>/patch.diff to /repo, run the property's check, undo
id=$1; tier=${2:-quick}; prop=${3:-${id%%-*}}
cd /verif
# (patch_rebased.diff: the same change re-made against the tree after a fix: commit touched the same lines)
patch=/verif/seeded/$id/patch.diff
[ -f /verif/seeded/$id/patch_rebased.diff ] && patch=/verif/seeded/$id/patch_rebased.diff
git -C /repo apply $patch || { echo "$id: PATCH DOES NOT APPLY"; exit 3; }
# (the evidence file describes the unchanged tree: a run against a seeded change must not replace it)
cp evidence/$prop.json /dev/shm/.evidence-$prop.$$ 2>/dev/null
out=$(timeout 3000 python3 bin/check $prop $tier 2>&1); rc=$?
git -C /repo checkout -- . 
[ -f /dev/shm/.evidence-$prop.$$ ] && mv /dev/shm/.evidence-$prop.$$ evidence/$prop.json
echo "$id ($prop $tier): exit=$rc $(echo "$out" | grep -c '^VIOLATION') violation lines; $(echo "$out" | grep -m1 -A1 '^VIOLATION' | tail -1 | cut -c1-260)"
[ $rc -eq 2 ] && echo "$out" | tail -5 | cut -c1-400
exit 0
