#!/usr/bin/env python3
# sizing sweep: exhaustive run of a family's configuration under a time limit; prints distinct states / time
import sys, os, subprocess, shutil, re, time, json
sys.path.insert(0, os.path.dirname(os.path.abspath(__file__)))
import families as F
fam = sys.argv[1]; limit = sys.argv[2] if len(sys.argv) > 2 else "120"
extra = json.loads(sys.argv[3]) if len(sys.argv) > 3 else {}
for k, v in list(extra.items()):
    if isinstance(v, str) and v.startswith("@"):
        extra[k] = F.Sub(v[1:])
    elif isinstance(v, list):
        extra[k] = frozenset(frozenset(x) if isinstance(x, list) else x for x in v)
view = sys.argv[4] if len(sys.argv) > 4 else "ViewNoObs"
d = "/dev/shm/size-" + fam
shutil.rmtree(d, ignore_errors=True); os.makedirs(d)
for f in os.listdir("/verif/specs"):
    if f.endswith(".tla"): shutil.copy("/verif/specs/" + f, d)
open(d + "/c.cfg", "w").write(F.mc_cfg(fam, ["InvC03", "InvC04", "InvC05", "InvC06", "InvC15"], ["AbortRestores", "DeliveredOnlyOnCommit", "SysFlagFixed", "OrdinaryCtxCannotTouchSystem"], extra, view))
t = time.time()
p = subprocess.run(["timeout", limit, "tlc", "-workers", "16", "-metadir", d + "/meta", "-config", "c.cfg", "StoreMC.tla"], cwd=d, capture_output=True, text=True)
out = p.stdout + p.stderr
m = re.findall(r"(\d[\d,]*) states generated.*?(\d[\d,]*) distinct states found", out)
fin = "No error has been found" in out
err = [l for l in out.splitlines() if "Error" in l][:3]
print(fam, extra if extra else "", "finished" if fin else "NOT FINISHED", m[-1] if m else "", "%.0fs" % (time.time() - t), err)
shutil.rmtree(d, ignore_errors=True)
