# Trace validation of the store model (specs/StoreTrace.tla): a random driver (vreplay storetrace) records executions of the real
# stores, TLC checks that every recorded call is a step of StoreSys!Next with exactly the recorded result and state.
import json, os, re, shutil, subprocess
import families as F
from vlib import Inconclusive
from storechecks import schema_of, HOSTILE5, LONG

fs = F.fs
NIL = F.NIL

ALL_CALLS = fs("create", "update", "delete", "deleteWhere", "createTeam", "deleteTeam", "addLinks", "removeLinks", "setLinks", "addLink", "removeLink",
               "rcInc", "rcDec", "rcSet", "callerError")

# universes larger than any exhaustive configuration: 5 people x 3 teams, every feature wired at once
T_BASE = dict(F.BASE, **F.FIVE, Teams=fs("t1", "t2", "t3"),
              Names=fs("", "a", "b", "c", "d", "p1", "p2", "p3", "p4", "p5"), Nicks=fs("x", "y", "z", ""), Roles=fs("r1", "r2", "r3", ""), Grades=fs("g1", "g2", "g3", ""),
              BossMode="idxNull", TeamMode="conCascadeNull", Vias=fs("people", "staff"), Ops=ALL_CALLS, WhereKinds=fs("all", "name", "grade"),
              SysCtxs=fs(False, True), MaxOps=1000000, MaxTx=1000000, MaxRc=1000000)
TRACE_FAMS = {
    "T_all": dict(T_BASE),
    "T_restrict": dict(T_BASE, BossMode="conNoneNull", TeamMode="idx"),
    "T_cascadeIdx": dict(T_BASE, BossMode="idxNull", TeamMode="idxCascade"),
    "T_entity": dict(T_BASE, LinksViaEntity=True, TeamMode="idxNull"),
    "T_ext": dict(T_BASE, ChildExtended=True, TeamMode="conNoneNull"),
    # both references cascade (teams <- people <- people): chains, a person that is its own boss, cycles, the same person reached twice
    "T_tree": dict(T_BASE, BossMode="conCascadeNull", TeamMode="conCascadeNull"),
    "T_child": dict(T_BASE, ChildFeatures=True, TeamMode="idxNull", Ops=ALL_CALLS | fs("updateTeam")),
}
for k, v in TRACE_FAMS.items():
    F.FAMILIES[k] = v

# which property owns a part of the abstract state (field of the db record)
FIELD_OWNER = dict(uName="C03", uNick="C03", sRoles="C03", sKeys="C03", uGrade="C03,C15", backBoss="C04", backTeam="C04", lnkPT="C05", lnkTP="C05",
                   rcPT="C05", rcTP="C05", ext="C15", ent="core", tms="core", chief="C04,C15", backChief="C04,C15", lnkST="C05,C15", lnkTS="C05,C15")

# the calls a property's trace runs concentrate on (None = all)
FOCUS = {
    "C03": ["create", "update", "delete", "deleteWhere", "callerError"],
    "C04": ["create", "update", "delete", "deleteWhere", "createTeam", "updateTeam", "deleteTeam", "callerError"],
    "C05": ["create", "delete", "createTeam", "deleteTeam", "addLinks", "removeLinks", "setLinks", "addLink", "removeLink", "rcInc", "rcDec", "rcSet", "callerError"],
    "C06": None, "C07": None, "C08": ["create", "update", "delete", "deleteWhere", "createTeam", "updateTeam", "deleteTeam", "callerError"],
    "C15": None,
    "C16": ["create", "update", "delete", "deleteWhere", "createTeam", "deleteTeam", "callerError"],
}


def trace_cfg(fam):
    c = dict(F.FAMILIES[fam])
    return ("INIT TraceInit\nNEXT TraceNext\nINVARIANT TraceInv\nPOSTCONDITION TraceAccepted\nCHECK_DEADLOCK FALSE\nCONSTANTS\n" + F.render(c)
            + '\n  TraceFile = "trace.ndjson"\n')


def driver_cfg(fam, tokens, ops, sys, veto, max_ops):
    c = F.FAMILIES[fam]
    tok = dict(tokens)
    tok.setdefault("LONG", LONG)
    return dict(schema=schema_of(fam), tokens=tok,
                trace=dict(universe=dict(ids=sorted(c["Ids"]), teams=sorted(c["Teams"]), names=sorted(c["Names"]), nicks=sorted(c["Nicks"]),
                                         roles=sorted(c["Roles"]), grades=sorted(c["Grades"])),
                           vias=sorted(c["Vias"]), ops=sorted(ops), linksViaEntity=c["LinksViaEntity"], boss=c["BossMode"] != "off", team=c["TeamMode"] != "off",
                           sys=sys, veto=veto, maxOps=max_ops, childFeatures=c.get("ChildFeatures", False)))


def owners_of(reject):
    """properties a rejected line speaks about"""
    out = set()
    model, logged, differs = reject["model"], reject["logged"], reject["differs"]
    if model["res"] != logged["res"]:
        out.add("C07" if model["res"] == "fail" else "core")     # success reported although the model rejects / an error the model does not know
        if reject.get("via") == "staff":
            out.add("C15")
        for a in model.get("app", []):
            out |= {"dup": {"C03"}, "emptyUnique": {"C03"}, "fkMissing": {"C04"}, "refExists": {"C04"}, "fkNull": {"C04"}, "system": {"C16"},
                    "storage": {"C07", "C03"}, "veto": {"C07"}, "caller": {"C07"}}.get(a, {"core"})
    elif reject.get("lost"):
        out.add("C07")
    elif not differs and reject.get("events") != "differ":
        out.add("core")
    for f in differs:
        out |= set(FIELD_OWNER.get(f, "core").split(","))
    if reject["op"] in ("delete", "deleteTeam", "deleteWhere") and differs:
        out.add("C06")
    if logged["res"] == "fail" and differs:
        out.add("C07")          # a rejected call (rolled-back transaction) left something behind
    if reject.get("events") == "differ":
        out.add("C08")          # the listeners were not handed exactly what the committed transaction produced
        out.discard("core")
        if logged["res"] == "fail":
            out.add("C07")
    return out


REJ = re.compile(r'<<\s*"REJECT",\s*(\d+),\s*"(\w+)",\s*"model",\s*(\[.*?\]),\s*"logged",\s*(\[.*?\]),\s*"extra",\s*(<<.*?>>),\s*"state-differs-in",\s*(\{.*?\}),\s*"events",\s*"(\w+)"\s*>>', re.S)


def tla_record(s):
    """[app |-> {"dup"}, res |-> "fail", ret |-> "~"]  ->  dict (flat records of strings / sets of strings only)"""
    out = {}
    for k, v in re.findall(r'(\w+) \|-> (\{[^}]*\}|"[^"]*"|[\w-]+)', s):
        if v.startswith("{"):
            out[k] = re.findall(r'"([^"]*)"', v)
        else:
            out[k] = v.strip('"')
    return out


def validate(ctx, bindir, prop, fam, tokens, traces, txs, seed, tag="", sys=True, veto=True, max_ops=4, selftest=False):
    """record `traces` executions and let TLC judge them; returns the driver's report"""
    name = "trace-%s%s" % (fam, tag)
    d = ctx.sub(name + "-drv")
    ops = FOCUS.get(prop) or sorted(ALL_CALLS)
    ops = [o for o in ops if o in F.FAMILIES[fam]["Ops"]]
    cfgp = os.path.join(d, "driver.json")
    with open(cfgp, "w") as f:
        json.dump(driver_cfg(fam, tokens, ops, sys, veto, max_ops), f)
    trace = os.path.join(d, "trace.ndjson")
    p = subprocess.run([os.path.join(bindir, "vreplay"), "storetrace", "--cfg", cfgp, "--out", trace, "--scratch", d, "--seed", str(seed),
                        "--traces", str(traces), "--txs", str(txs)], capture_output=True, text=True, timeout=1800)
    lines = [l for l in p.stdout.splitlines() if l.startswith("{")]
    if p.returncode != 0 or not lines:
        raise Inconclusive("trace driver failed: " + (p.stderr or p.stdout)[-1500:])
    rep = json.loads(lines[-1])
    rep["family"] = fam
    for pm in rep.get("panics") or []:
        ctx.violation("trace:panic", "[%s] %s" % (fam, pm), dict(driver=cfgp))
        break

    def judge(tracefile, meta):
        td = ctx._tlc_dir(name + meta, trace_cfg(fam), "t.cfg")
        shutil.copy(tracefile, os.path.join(td, "trace.ndjson"))
        q = subprocess.run(["timeout", "1800", "tlc", "-workers", "1", "-metadir", os.path.join(td, "meta"), "-config", "t.cfg", "StoreTrace.tla"], cwd=td,
                           capture_output=True, text=True, env=dict(os.environ, JAVA_TOOL_OPTIONS=os.environ.get("JAVA_TOOL_OPTIONS", "") + " -Xss64m"))
        out = q.stdout + q.stderr
        acc = re.search(r'<<"ACCEPTED", (\d+)>>', out)
        stop = re.search(r'<<"STOPPED-AT", (\d+), "of", (\d+)>>', out)
        if "is violated" in out and "TraceInv" in out:
            return dict(verdict="invariant", out=out[-3000:])
        if acc:
            return dict(verdict="accepted", lines=int(acc.group(1)))
        if not stop:
            raise Inconclusive("TLC did not judge the trace %s:\n%s" % (name, out[-2500:]))
        r = dict(verdict="rejected", at=int(stop.group(1)), lines=int(stop.group(2)))
        m = REJ.search(out)
        if m:
            r.update(at=int(m.group(1)), op=m.group(2), model=tla_record(m.group(3)), logged=tla_record(m.group(4)),
                     extra=re.findall(r'"((?:[^"\\]|\\.)*)"', m.group(5)), differs=re.findall(r'"(\w+)"', m.group(6)), events=m.group(7))
        return r

    v = judge(trace, "")
    ctx.cov["trace_runs"].append(dict(family=fam, executions=rep["executions"], lines=rep["lines"], ops_ok=rep["ops_ok"], ops_failed=rep["ops_failed"],
                                      commits=rep["commits"], verdict=v["verdict"], at=v.get("at")))
    ctx.cov["evaluations"] += rep["lines"]
    ctx.cov["traces_validated_against_impl"] += rep["executions"]
    if v["verdict"] == "invariant":
        ctx.violation("trace:invariant", "[%s] a state the implementation went through violates an invariant of the specification" % fam, dict(tlc=v["out"], driver=cfgp))
    elif v["verdict"] == "rejected":
        all_lines = open(trace).read().splitlines()
        line = json.loads(all_lines[v["at"] - 1]) if 0 < v["at"] <= len(all_lines) else {}
        if "model" not in v:
            # no action of the specification is enabled for this line with the logged arguments (a precondition of the driver protocol)
            raise Inconclusive("trace %s: line %d (%s) is not a call the specification knows in that state" % (name, v["at"], json.dumps(line.get("a"))[:300]))
        v["via"] = (line.get("a") or {}).get("via")
        v["lost"] = bool(line.get("lost"))
        own = owners_of(v)
        what = "[%s] line %d: %s %s -- implementation: %s %s ret=%s; specification: %s %s ret=%s; state differs in %s%s" % (
            fam, v["at"], v["op"], json.dumps(line.get("a"))[:260], v["logged"].get("res"), v["logged"].get("cls", ""), v["logged"].get("ret", ""),
            v["model"].get("res"), ",".join(v["model"].get("app", [])), v["model"].get("ret", ""), v["differs"] or "nothing", (" extra: %s" % v["extra"][:3]) if v["extra"] else "")
        if v.get("events") == "differ":
            what += "; events delivered: %s" % json.dumps(line.get("evs"))[:300]
        # keep the failing execution (from its reset line) as the replay file
        start = max([i for i in range(v["at"]) if '"op":"reset"' in all_lines[i]] + [-1]) + 1
        if prop in own or "core" in own:
            ctx.violation("trace:%s:%s:%s" % (v["op"], v["model"].get("res"), "+".join(sorted(v["differs"])) or v["logged"].get("cls", "")), what,
                          dict(kind="storetrace", prop=prop, family=fam, tokens=tokens, traces=traces, txs=txs, seed=seed, sys=sys, veto=veto, max_ops=max_ops,
                               driver=json.load(open(cfgp)), lines=[json.loads(x) for x in all_lines[start:v["at"]]]))
        else:
            ctx.cov.setdefault("foreign_rejections", []).append(dict(family=fam, owners=sorted(own), what=what[:300]))
    if selftest and v["verdict"] == "accepted":
        # binding self-test: corrupt one logged fact in the middle of the file -- TLC must reject exactly that line
        ls = open(trace).read().splitlines()
        k = next(i for i in range(len(ls) // 2, len(ls)) if '"res":"ok"' in ls[i] and '"op":"create"' in ls[i])
        rec = json.loads(ls[k])
        pid = rec["a"]["id"]
        rec["db"]["ent"][pid]["nick"] = "zz-corrupted"
        ls[k] = json.dumps(rec)
        bad = os.path.join(d, "corrupted.ndjson")
        open(bad, "w").write("\n".join(ls) + "\n")
        w = judge(bad, "-selftest")
        ok = w["verdict"] == "rejected" and w.get("at") == k + 1
        ctx.cov["binding_selftest"] = dict(corrupted_line=k + 1, verdict=w["verdict"], rejected_at=w.get("at"), ok=ok)
        if not ok:
            raise Inconclusive("binding self-test failed: a corrupted trace line was not rejected where it was corrupted (%s)" % w)
    return rep
