# Shared plumbing of bin/check: scratch directory, building the harness from /repo's working tree,
# running TLC (exhaustive / simulation), running the replayers, known findings, evidence, exit protocol.
import atexit, hashlib, json, os, re, shutil, subprocess, sys, tempfile, time

VERIF = os.path.dirname(os.path.dirname(os.path.abspath(__file__)))
SPECS = os.path.join(VERIF, "specs")
HARNESS = os.path.join(VERIF, "harness")
REPO = "/repo"
# measurement aid only (bin/seedmatrix_par.sh): run the checks against another checkout of the library -- a scratch worktree with a seeded
# change applied -- so that several seeded changes can be measured at the same time.  The registered commands never set it: they build
# from /repo's working tree and write /verif/evidence.
ALT_REPO = os.environ.get("VERIF_REPO")
CORES = os.cpu_count() or 4

GOENV = dict(os.environ, GOFLAGS="-mod=mod", GOPROXY="off", GOSUMDB="off", GOTOOLCHAIN="local", CGO_ENABLED="0")


class Inconclusive(Exception):
    pass


class Ctx:
    """one run of one check"""

    def __init__(self, prop, tier, level):
        self.prop, self.tier, self.level = prop, tier, level
        self.seed = int(os.environ.get("VERIF_SEED", "1") or "1")
        self.t0 = time.time()
        base = "/dev/shm" if os.path.isdir("/dev/shm") and os.access("/dev/shm", os.W_OK) else tempfile.gettempdir()
        self.scratch = tempfile.mkdtemp(prefix="verif-%s-" % prop, dir=base)
        if not os.environ.get("VERIF_KEEP"):      # (debugging aid: keep the generated behaviours and traces)
            atexit.register(lambda: shutil.rmtree(self.scratch, ignore_errors=True))
        self.cov = dict(states=0, transitions=0, traces_validated_against_impl=0, samples=[], evaluations=0,
                        distinct_nontrivial=0, rule="", exhaustive=False, mc_runs=[], replay_runs=[], trace_runs=[],
                        foreign_divergence=0, known_findings=[], binding_selftest=None)
        self.assumptions = []
        self.violations = []       # (sig, detail, replay_payload)
        self.known = load_known(prop)
        self.reported_known = set()
        self._nontrivial = set()

    def sub(self, name):
        d = os.path.join(self.scratch, name)
        os.makedirs(d, exist_ok=True)
        return d

    # ---- building ------------------------------------------------------------------------------
    def build(self, race=False):
        out = os.path.join(self.scratch, "bin")
        os.makedirs(out, exist_ok=True)
        sumsrc = os.path.join(REPO, "go.sum")
        if os.path.exists(sumsrc):
            shutil.copy(sumsrc, os.path.join(HARNESS, "go.sum"))
        cmd = ["go", "build", "-tags", "verif"] + (["-race"] if race else []) + ["-o", out + "/", "./cmd/..."]
        env = dict(GOENV)
        if race:
            env["CGO_ENABLED"] = "1"
        src = HARNESS
        if ALT_REPO:
            src = os.path.join(self.scratch, "harness-src")
            shutil.copytree(HARNESS, src, dirs_exist_ok=True)
            gm = open(os.path.join(src, "go.mod")).read().replace("=> /repo", "=> " + ALT_REPO)
            open(os.path.join(src, "go.mod"), "w").write(gm)
            shutil.copy(os.path.join(ALT_REPO, "go.sum"), os.path.join(src, "go.sum"))
        p = subprocess.run(cmd, cwd=src, env=env, capture_output=True, text=True)
        if p.returncode != 0:
            # a tree that does not compile is not a verdict about the property
            raise Inconclusive("harness does not build against /repo:\n" + p.stderr[-3000:])
        return out

    # ---- TLC -----------------------------------------------------------------------------------
    def _tlc_dir(self, name, cfg_text, cfg_name):
        d = self.sub(name)
        for f in os.listdir(SPECS):
            if f.endswith(".tla") or f.endswith(".cfg"):
                shutil.copy(os.path.join(SPECS, f), d)
        for fn, text in getattr(self, "extra_specs", {}).items():     # modules generated for this run (replace the committed default)
            with open(os.path.join(d, fn), "w") as f:
                f.write(text)
        if cfg_text is not None:
            with open(os.path.join(d, cfg_name), "w") as f:
                f.write(cfg_text)
        return d

    def tlc_mc(self, name, module, cfg_text=None, cfg_name=None, workers=None, timeout=3600, coverage=False, expect_violation=False):
        cfg_name = cfg_name or (name + ".cfg")
        d = self._tlc_dir(name, cfg_text, cfg_name)
        cmd = ["timeout", str(timeout), "tlc", "-workers", str(workers or min(CORES, 16)), "-metadir", os.path.join(d, "meta"),
               "-config", cfg_name] + (["-coverage", "1"] if coverage else []) + [module + ".tla"]
        t = time.time()
        p = subprocess.run(cmd, cwd=d, capture_output=True, text=True, env=dict(os.environ, JAVA_TOOL_OPTIONS=os.environ.get("JAVA_TOOL_OPTIONS", "") + " -Xss64m"))
        out = p.stdout + p.stderr
        wall = time.time() - t
        m = re.search(r"(\d+) states generated, (\d+) distinct states found", out)
        ok = "Model checking completed. No error has been found." in out
        violated = "is violated" in out or "Invariant" in out and "violated" in out
        run = dict(name=name, module=module, states=int(m.group(2)) if m else 0, transitions=int(m.group(1)) if m else 0,
                   wall_s=round(wall, 1), ok=ok)
        self.cov["mc_runs"].append(run)
        if expect_violation:
            if not violated:
                raise Inconclusive("negative control %s: TLC did not refute it\n%s" % (name, out[-1500:]))
            return run, out
        if not ok:
            if violated:
                # the *design* (the model) violates its own property: this is a defect of the model, never a verdict on the code
                raise Inconclusive("TLC reports a property violation in the model %s/%s -- the specification is wrong or a bound changed:\n%s" % (module, name, out[-3000:]))
            raise Inconclusive("TLC did not finish %s/%s (rc=%s):\n%s" % (module, name, p.returncode, out[-3000:]))
        self.cov["states"] += run["states"]
        self.cov["transitions"] += run["transitions"]
        if coverage:
            # vacuity: no action of Next may have been left untaken
            dead = re.findall(r"^<(\w+) line .*>: 0:0$", out, re.M)
            run["untaken_actions"] = dead
        return run, out

    def tlc_sim(self, name, module, cfg_text, num, depth, seed, timeout=900, workers=1):
        """random behaviours; every finished behaviour is one JSON string literal line on stdout"""
        d = self._tlc_dir(name, cfg_text, name + ".cfg")
        outp = os.path.join(d, "sim.out")
        cmd = ["timeout", str(timeout), "tlc", "-workers", str(workers), "-simulate", "num=%d" % num, "-depth", str(depth),
               "-seed", str(seed), "-metadir", os.path.join(d, "meta"), "-config", name + ".cfg", module + ".tla"]
        with open(outp, "w") as f:
            p = subprocess.run(cmd, cwd=d, stdout=f, stderr=subprocess.STDOUT)
        beh = os.path.join(d, "beh.ndjson")
        n = 0
        err = []
        with open(beh, "w") as o:
            for l in open(outp, errors="replace"):
                if l.startswith('"{'):
                    o.write(json.loads(l) + "\n")
                    n += 1
                elif "Error" in l or "exception" in l.lower():
                    err.append(l.strip())
        if n == 0 or any("TLC threw" in e or "Parsing or semantic" in e for e in err):
            tail = "".join(l for l in open(outp, errors="replace") if not l.startswith('"{'))[-3000:]
            raise Inconclusive("TLC simulation %s produced %d behaviours:\n%s" % (name, n, tail))
        return beh, n

    def tlc_bfs_emit(self, name, module, cfg_text, timeout=900, workers=1, max_set=None):
        """bounded-exhaustive generation: BFS over the generator spec, every printed JSON line is one behaviour"""
        d = self._tlc_dir(name, cfg_text, name + ".cfg")
        outp = os.path.join(d, "bfs.out")
        cmd = (["timeout", str(timeout), "tlc", "-workers", str(workers), "-metadir", os.path.join(d, "meta")] + (["-maxSetSize", str(max_set)] if max_set else [])
               + ["-config", name + ".cfg", module + ".tla"])
        with open(outp, "w") as f:
            subprocess.run(cmd, cwd=d, stdout=f, stderr=subprocess.STDOUT)
        beh = os.path.join(d, "beh.ndjson")
        n = 0
        done = False
        with open(beh, "w") as o:
            for l in open(outp, errors="replace"):
                if l.startswith('"{') or l.startswith('"['):
                    o.write(json.loads(l) + "\n")
                    n += 1
                elif "Model checking completed" in l:
                    done = True
        if not done or n == 0:
            tail = "".join(l for l in open(outp, errors="replace") if not l.startswith('"'))[-3000:]
            raise Inconclusive("TLC generation %s did not complete (%d cases):\n%s" % (name, n, tail))
        return beh, n

    # ---- verdict plumbing ----------------------------------------------------------------------
    def nontrivial(self, key):
        self._nontrivial.add(key)

    def add_sample(self, s, limit=6):
        if len(self.cov["samples"]) < limit:
            self.cov["samples"].append(s)

    def violation(self, sig, detail, payload):
        """a reproduced disagreement owned by this property; known findings are reported as such"""
        for k in self.known:
            if k.get("kind", "finding") == "finding" and re.fullmatch(k["sig"], sig):
                if k["sig"] not in self.reported_known:
                    self.reported_known.add(k["sig"])
                    print("KNOWN-FINDING: property=%s %s" % (self.prop, k["what"]))
                    self.cov["known_findings"].append(k["what"])
                return False
        h = hashlib.sha1((sig + json.dumps(payload, sort_keys=True, default=str)).encode()).hexdigest()[:10]
        os.makedirs(os.path.join(VERIF, "replays"), exist_ok=True)
        path = os.path.join(VERIF, "replays", "%s-%s.json" % (self.prop, h))
        with open(path, "w") as f:
            json.dump(dict(property=self.prop, sig=sig, detail=detail, seed=self.seed, tier=self.tier, payload=payload,
                           rerun="python3 bin/check %s --replay %s" % (self.prop, path)), f, indent=1, default=str)
        if sig not in [v[0] for v in self.violations]:
            print("VIOLATION property=%s replay=%s" % (self.prop, path))
            print("  " + detail[:600])
        self.violations.append((sig, detail, path))
        return True

    def finish(self):
        c = self.cov
        c["distinct_nontrivial"] = max(c["distinct_nontrivial"], len(self._nontrivial))
        if not c["samples"]:
            c["samples"] = ["(no sample recorded)"]
        ev = dict(property_id=self.prop, tier=self.tier, seed=self.seed, level=self.level, coverage=c,
                  assumptions=self.assumptions, wall_s=round(time.time() - self.t0, 1), violations=len(self.violations))
        evdir = os.path.join(VERIF, "evidence") if not (ALT_REPO or not getattr(self, "keep_evidence", True)) else os.path.join(self.scratch, "evidence")
        os.makedirs(evdir, exist_ok=True)
        with open(os.path.join(evdir, self.prop + ".json"), "w") as f:
            json.dump(ev, f, indent=1, default=str)
        print("%s %s: states=%d transitions=%d traces/behaviours replayed=%d evaluations=%d nontrivial=%d violations=%d wall=%.0fs" % (
            self.prop, self.tier, c["states"], c["transitions"], c["traces_validated_against_impl"], c["evaluations"],
            c["distinct_nontrivial"], len(self.violations), time.time() - self.t0))
        return 1 if self.violations else 0


def load_known(prop):
    """known_findings.txt:  finding: property=<id> sig=<regex> :: <what>   |   fixed: property=<id> <commit> <what>"""
    out = []
    p = os.path.join(VERIF, "known_findings.txt")
    if os.path.exists(p):
        for l in open(p):
            l = l.strip()
            m = re.match(r"finding:\s+property=(\S+)\s+sig=(\S+)\s+::\s+(.*)", l)
            if m and m.group(1) == prop:
                out.append(dict(kind="finding", property=prop, sig=m.group(2), what=m.group(3)))
    return out


def run_json(cmd, timeout=3600, env=None, cwd=None):
    try:
        p = subprocess.run(cmd, capture_output=True, text=True, timeout=timeout, env=env, cwd=cwd)
    except subprocess.TimeoutExpired:
        raise Inconclusive("%s did not finish within %ss" % (" ".join(cmd[:3]), timeout))
    if p.returncode != 0:
        fatal = re.search(r"fatal error: [^\n]*", p.stderr or "")
        raise Inconclusive("%s exited %d:\n%s%s" % (" ".join(cmd[:3]), p.returncode, (fatal.group(0) + "\n...\n") if fatal else "", (p.stderr or p.stdout)[-3000:]))
    lines = [l for l in p.stdout.split("\n") if l.startswith("{")]      # (not splitlines: U+0085, U+2028, FF inside a JSON string are not line ends)
    if not lines:
        raise Inconclusive("%s printed no report:\n%s" % (cmd[0], p.stdout[-2000:] + p.stderr[-2000:]))
    return json.loads(lines[-1])
