package main

import (
	"bufio"
	"encoding/json"
	"flag"
	"fmt"
	"io"
	"math/rand"
	"os"
	"strings"
	"time"

	"github.com/openziti/storage/ast"
	"github.com/sirupsen/logrus"
)

// boolSyms is an ast.Symbols over bool symbols a..h with the values of one assignment
type boolSyms struct{ vals map[string]bool }

func (o boolSyms) GetSymbolType(name string) (ast.NodeType, bool) {
	if len(name) == 1 && name[0] >= 'a' && name[0] <= 'h' {
		return ast.NodeTypeBool, true
	}
	if len(name) == 2 && name[1] >= 'a' && name[1] <= 'h' {
		switch name[0] {
		case 'n', 'm':
			return ast.NodeTypeInt64, true
		case 's':
			return ast.NodeTypeString, true
		case 'd':
			return ast.NodeTypeDatetime, true
		}
	}
	return 0, false
}
func (o boolSyms) GetSetSymbolTypes(string) ast.SymbolTypes { return nil }
func (o boolSyms) IsSet(name string) (bool, bool) {
	_, ok := o.GetSymbolType(name)
	return false, ok
}
func (o boolSyms) EvalBool(name string) *bool { v := o.vals[name]; return &v }
func (o boolSyms) EvalString(name string) *string {
	if len(name) != 2 {
		return nil
	}
	v := "y"
	if o.vals[name[1:]] {
		v = "x"
	}
	return &v
}
func (o boolSyms) EvalInt64(name string) *int64 {
	if len(name) != 2 {
		return nil
	}
	if name[0] == 'm' { // the field is 1 when the atom holds and missing (null) when it does not
		if o.vals[name[1:]] {
			v := int64(1)
			return &v
		}
		return nil
	}
	v := int64(0)
	if o.vals[name[1:]] {
		v = 1
	}
	return &v
}
func (o boolSyms) EvalFloat64(string) *float64 { return nil }
func (o boolSyms) EvalDatetime(name string) *time.Time {
	if len(name) != 2 {
		return nil
	}
	v := time.Date(2019, 1, 1, 0, 0, 0, 0, time.UTC)
	if o.vals[name[1:]] {
		v = time.Date(2021, 1, 1, 0, 0, 0, 0, time.UTC)
	}
	return &v
}
func (o boolSyms) IsNil(name string) bool {
	return len(name) == 2 && name[0] == 'm' && !o.vals[name[1:]]
}
func (o boolSyms) OpenSetCursor(string) ast.SetCursor                    { return ast.NewEmptyCursor() }
func (o boolSyms) OpenSetCursorForQuery(string, ast.Query) ast.SetCursor { return ast.NewEmptyCursor() }

type beCase struct {
	Toks   []string `json:"toks"`
	Atoms  int      `json:"atoms"`
	Table  []bool   `json:"table"`
	Strict []bool   `json:"strict"`
	Mixed  bool     `json:"mixed"`
}

type beMismatch struct {
	Text    string `json:"text"`
	Variant int    `json:"variant"`
	Want    string `json:"want"`
	Got     string `json:"got"`
	Mixed   bool   `json:"mixed"`
	Sig     string `json:"sig"`
}

type beReport struct {
	Cases          int          `json:"cases"`
	Evals          int          `json:"evaluations"`
	NonTrivial     int          `json:"distinct_nontrivial"` // expressions with at least two connectives
	MixedCases     int          `json:"mixed_cases"`
	Strict         []beMismatch `json:"mismatches_strict"` // against the documented grouping
	Dev            []beMismatch `json:"mismatches_dev"`    // against the right-nesting reading of unparenthesised mixed chains
	NStrict        int          `json:"mismatch_count_strict"`
	NDev           int          `json:"mismatch_count_dev"`
	NStrictUnmixed int          `json:"mismatch_count_strict_unmixed"`
	Samples        []string     `json:"sample_cases"`
}

var kwVariants = map[string][]string{
	"and": {"and", "AND", "And", "aNd"},
	"or":  {"or", "OR", "Or", "oR"},
	"not": {"not", "NOT", "Not", "nOT"},
}
var wsVariants = []string{" ", "\t", "\n", " \r\n  ", "  "}

// spell renders the token sequence; variant 0 is the plain spelling
func spell(toks []string, variant int) string {
	var b strings.Builder
	atom := 0
	rng := rand.New(rand.NewSource(int64(variant)*7919 + 13))
	pick := func(n int) int { return rng.Intn(n) }
	ws := func() string {
		if variant == 0 {
			return " "
		}
		return wsVariants[pick(len(wsVariants))]
	}
	optws := func() string {
		if variant == 0 || pick(2) == 0 {
			return ""
		}
		return wsVariants[pick(len(wsVariants))]
	}
	wrapAll := variant >= 3 && variant%3 == 0
	if wrapAll {
		b.WriteString("(" + optws())
	}
	for i, t := range toks {
		switch t {
		case "A":
			name := string(rune('a' + atom))
			atom++
			switch {
			case variant >= 2 && pick(3) == 0:
				b.WriteString("(" + optws() + name + optws() + ")") // redundant parentheses around an atom
			case variant >= 2 && pick(4) == 0:
				b.WriteString(name + optws() + "=" + optws() + "true")
			case variant >= 1 && pick(2) == 0:
				// the same truth value through a word operator (in / between / contains / icontains and their negations);
				// `not in` takes exactly one white-space character, the other negated operators one or more
				one := []string{" ", "\t", "\n", "\r"}[pick(4)]
				kw := func(w string) string {
					if pick(2) == 0 {
						return w
					}
					return []string{strings.ToUpper(w), strings.ToUpper(w[:1]) + w[1:], w[:1] + strings.ToUpper(w[1:])}[pick(3)]
				}
				forms := []string{
					"n" + name + ws() + kw("in") + ws() + "[1]",
					"n" + name + ws() + kw("not") + one + kw("in") + ws() + "[0," + optws() + "5]",
					"n" + name + ws() + kw("between") + ws() + "1" + ws() + kw("and") + ws() + "2",
					"n" + name + ws() + kw("not") + ws() + kw("between") + ws() + "0" + ws() + kw("and") + ws() + "1",
					"s" + name + ws() + kw("contains") + ws() + `"x"`,
					"s" + name + ws() + kw("not") + ws() + kw("contains") + ws() + `"y"`,
					"s" + name + ws() + kw("icontains") + ws() + `"X"`,
					"s" + name + ws() + kw("not") + ws() + kw("icontains") + ws() + `"Y"`,
					// ordering comparisons of a field that is missing when the atom is false (a comparison with null is false,
					// and its negation true: `not (P)` is the negation of P, not P with the operator turned round)
					"m" + name + optws() + ">" + optws() + "0",
					"m" + name + optws() + "<" + optws() + "2",
					"m" + name + optws() + ">=" + optws() + "1",
					"m" + name + optws() + "<=" + optws() + "1",
					// comparisons with a float literal (typed as float comparisons of an integer field)
					"n" + name + optws() + ">" + optws() + "0.5",
					"n" + name + optws() + "=" + optws() + "1.0",
					// datetime literals: white space is allowed inside the parentheses
					"d" + name + optws() + ">=" + optws() + "datetime(" + optws() + "2020-06-01T00:00:00Z" + optws() + ")",
					"d" + name + ws() + kw("in") + ws() + "[datetime(" + optws() + "2021-01-01T00:00:00Z" + optws() + ")" + optws() + "]",
					"d" + name + ws() + kw("between") + ws() + "datetime(" + optws() + "2020-01-01T00:00:00+01:00" + optws() + ")" + ws() + kw("and") + ws() + "datetime(" + optws() + "2022-01-01T00:00:00Z)",
				}
				b.WriteString(forms[pick(len(forms))])
			default:
				b.WriteString(name)
			}
		case "(":
			b.WriteString("(" + optws())
		case ")":
			b.WriteString(optws() + ")")
		default: // and or not
			sp := t
			if variant > 0 {
				sp = kwVariants[t][pick(len(kwVariants[t]))]
			}
			if t == "not" {
				b.WriteString(sp + ws())
			} else {
				b.WriteString(ws() + sp + ws())
			}
		}
		_ = i
	}
	if wrapAll {
		b.WriteString(optws() + ")")
	}
	return b.String()
}

func bits(tb []bool) string {
	var b strings.Builder
	for _, x := range tb {
		if x {
			b.WriteByte('1')
		} else {
			b.WriteByte('0')
		}
	}
	return b.String()
}

// vreplay boolexpr --in cases.ndjson --variants 6
func boolexprMain(args []string) error {
	fs := flag.NewFlagSet("boolexpr", flag.ExitOnError)
	in := fs.String("in", "", "cases")
	variants := fs.Int("variants", 6, "re-spellings per expression")
	_ = fs.Parse(args)
	logrus.SetOutput(io.Discard)
	f, err := os.Open(*in)
	if err != nil {
		return err
	}
	defer f.Close()
	rep := beReport{}
	sc := bufio.NewScanner(f)
	sc.Buffer(make([]byte, 1<<20), 1<<26)
	idx := 0
	for sc.Scan() {
		var c beCase
		if err := json.Unmarshal(sc.Bytes(), &c); err != nil {
			return err
		}
		idx++
		rep.Cases++
		if c.Mixed {
			rep.MixedCases++
		}
		conn := 0
		for _, t := range c.Toks {
			if t == "and" || t == "or" {
				conn++
			}
		}
		if conn >= 2 {
			rep.NonTrivial++
		}
		for v := 0; v < *variants; v++ {
			text := spell(c.Toks, v*97+idx%5*(v))
			if v == 0 {
				text = spell(c.Toks, 0)
			}
			if idx%1500 == 1 && v == 1 {
				rep.Samples = append(rep.Samples, fmt.Sprintf("%q -> %s", text, bits(c.Strict)))
			}
			got := make([]bool, len(c.Table))
			gotS := ""
			func() {
				defer func() {
					if p := recover(); p != nil {
						gotS = fmt.Sprint("panic: ", p)
					}
				}()
				q, err := ast.Parse(boolSyms{}, text)
				if err != nil {
					gotS = "parse error: " + err.Error()
					return
				}
				w := c.Atoms
				for k := 0; k < 1<<w; k++ {
					vals := map[string]bool{}
					for i := 0; i < w; i++ {
						vals[string(rune('a'+i))] = (k>>(w-1-i))&1 == 1
					}
					got[k] = q.EvalBool(boolSyms{vals: vals})
					rep.Evals++
				}
				gotS = bits(got)
			}()
			kind := "unmixed"
			if c.Mixed {
				kind = "mixed"
			}
			if gotS != bits(c.Strict) {
				rep.NStrict++
				if !c.Mixed {
					rep.NStrictUnmixed++
				}
				if len(rep.Strict) < 12 {
					rep.Strict = append(rep.Strict, beMismatch{Text: text, Variant: v, Want: bits(c.Strict), Got: gotS, Mixed: c.Mixed, Sig: "grouping:" + kind})
				}
			}
			if gotS != bits(c.Table) {
				rep.NDev++
				if len(rep.Dev) < 12 {
					rep.Dev = append(rep.Dev, beMismatch{Text: text, Variant: v, Want: bits(c.Table), Got: gotS, Mixed: c.Mixed, Sig: "grouping-dev:" + kind + fmt.Sprint(":v", minInt(v, 1))})
				}
			}
		}
	}
	out, _ := json.Marshal(rep)
	fmt.Println(string(out))
	return nil
}

func minInt(a, b int) int {
	if a < b {
		return a
	}
	return b
}
