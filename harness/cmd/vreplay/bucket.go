package main

import (
	"bufio"
	"bytes"
	"encoding/json"
	"flag"
	"fmt"
	"io"
	"math"
	"os"
	"path/filepath"
	"reflect"
	"sort"
	"strings"
	"time"

	"github.com/openziti/storage/boltz"
	"github.com/sirupsen/logrus"
	"go.etcd.io/bbolt"
)

// the value table of Bucket.tla: token -> Go value
var (
	tPlus  = time.Date(2031, 7, 9, 23, 59, 59, 123456789, time.FixedZone("plus", 5*3600+30*60))
	tMinus = time.Date(1969, 12, 31, 18, 0, 0, 1, time.FixedZone("minus", -8*3600))
	tUtc   = time.Date(2024, 2, 29, 12, 0, 0, 0, time.UTC)
)

var tokenValues = map[string]any{
	"n:nil":     nil,
	"s:empty":   "",
	"s:bytes":   "\x00\xff\"q\\\n",
	"s:long":    strings.Repeat("L", 70000),
	"s:a":       "a",
	"i:min":     int32(math.MinInt32),
	"i:neg":     int32(-1),
	"i:max":     int32(math.MaxInt32),
	"j:min":     int64(math.MinInt64),
	"j:max":     int64(math.MaxInt64),
	"j:zero":    int64(0),
	"j:neg":     int64(-2),
	"f:nan":     math.NaN(),
	"f:negzero": math.Copysign(0, -1),
	"f:inf":     math.Inf(-1),
	"f:pi":      3.141592653589793,
	"b:true":    true,
	"b:false":   false,
	"t:utc":     tUtc,
	"t:plus":    tPlus,
	"t:minus":   tMinus,
	"z:empty":   []string{},
	"z:one":     []string{"a"},
	"z:dups":    []string{"b", "a", "b", "", "\x00\xff"},
	"z:bytes":   []string{"\xfe", "A"},
	"z:ab":      []string{"a", "b"},
	"z:aa":      []string{"a", "a"}, // as long as z:ab, made of its elements only: denotes the set {a}
	"z:ba":      []string{"b", "a"},
	"m:empty":   map[string]interface{}{},
	"m:flat":    map[string]interface{}{"a": int64(1), "b": "x", "c": true, "d": nil, "e": 1.5, "f": int32(7), "g": tPlus, "": "emptykey?"},
	"m:nested":  map[string]interface{}{"m": map[string]interface{}{"k": "v", "l": []interface{}{int64(1), "x", nil}}, "n": int64(-9), "s": ""},
	"l:empty":   []interface{}{},
	"l:mixed":   []interface{}{int64(1), "a", nil, true, 2.5, int32(3)},
	"l:nested":  []interface{}{[]interface{}{int64(1)}, map[string]interface{}{"a": "b"}, ""},
	"l:long":    longList(300), // more elements than one byte of index counts
}

func longList(n int) []interface{} {
	out := make([]interface{}, n)
	for i := range out {
		out[i] = int64(i)
	}
	return out
}

func init() {
	// bbolt refuses empty keys: a map with an empty key is outside what can be stored -- not part of the table
	delete(tokenValues["m:flat"].(map[string]interface{}), "")
}

// writePrior writes a value of the same kind as the token's (and sharing none of its content) with the same field selection
func writePrior(b *boltz.TypedBucket, field, tok string, checker boltz.FieldChecker) {
	switch tokenValues[tok].(type) {
	case []string:
		b.SetStringList(field, []string{"zz1", "a", "zz3", "zz4", "zz5", "zz6"}, checker)
	case map[string]interface{}:
		b.PutMap(field, map[string]interface{}{"zk": "zv", "m": map[string]interface{}{"zx": "zy"}, "n": "text"}, checker, true)
	case []interface{}:
		b.PutList(field, []interface{}{"p", int64(9), "q", map[string]interface{}{"zx": "zy"}, "r", "s", "t", "u"}, checker)
	}
}

func write(b *boltz.TypedBucket, field, tok string, checker boltz.FieldChecker, salt int) {
	switch v := tokenValues[tok].(type) {
	case nil:
		if salt%2 == 0 {
			b.SetStringP(field, nil, checker)
		} else {
			b.SetTimeP(field, nil, checker)
		}
	case string:
		if salt%2 == 0 {
			b.SetString(field, v, checker)
		} else {
			b.SetStringP(field, &v, checker)
		}
	case int32:
		b.SetInt32(field, v, checker)
	case int64:
		b.SetInt64(field, v, checker)
	case float64:
		b.SetFloat64(field, v, checker)
	case bool:
		b.SetBool(field, v, checker)
	case time.Time:
		if salt%2 == 0 {
			b.SetTime(field, v, checker)
		} else {
			b.SetTimeP(field, &v, checker)
		}
	case []string:
		if salt%2 == 0 {
			b.SetStringList(field, v, checker)
		} else {
			b.GetAndSetStringList(field, v, checker)
		}
	case map[string]interface{}:
		b.PutMap(field, v, checker, true)
	case []interface{}:
		b.PutList(field, v, checker)
	default:
		panic("token without value: " + tok)
	}
}

func normList(v []string) []string {
	m := map[string]bool{}
	for _, s := range v {
		m[s] = true
	}
	out := make([]string, 0, len(m))
	for s := range m {
		out = append(out, s)
	}
	sort.Strings(out)
	return out
}

// normAny: times -> UTC instants (as UnixNano strings), NaN-safe floats, nested structures recursively
func normAny(v any) any {
	switch x := v.(type) {
	case time.Time:
		return fmt.Sprint("T", x.UnixNano())
	case *time.Time:
		if x == nil {
			return nil
		}
		return fmt.Sprint("T", x.UnixNano())
	case float64:
		return fmt.Sprint("F", math.Float64bits(x))
	case map[string]interface{}:
		out := map[string]interface{}{}
		for k, e := range x {
			out[k] = normAny(e)
		}
		return out
	case []interface{}:
		out := make([]interface{}, len(x))
		for i, e := range x {
			out[i] = normAny(e)
		}
		return out
	}
	return v
}

// readBack compares field with the expected token through every getter that applies; "" = ok
func readBack(b *boltz.TypedBucket, field, tok string) string {
	raw := b.Bucket.Get([]byte(field))
	sub := b.Bucket.Bucket([]byte(field))
	if tok == "absent" {
		if raw != nil || sub != nil {
			return "expected absent, found data"
		}
		return ""
	}
	want := tokenValues[tok]
	switch v := want.(type) {
	case nil:
		if sub != nil || raw == nil {
			return "expected a stored nil"
		}
		if b.GetString(field) != nil || b.GetInt64(field) != nil || b.GetBool(field) != nil || b.GetTime(field) != nil || b.GetFloat64(field) != nil {
			return "a getter returned a value for nil"
		}
	case string:
		got := b.GetString(field)
		if got == nil {
			return fmt.Sprintf("GetString nil, want %q", v)
		}
		if *got != v {
			return fmt.Sprintf("GetString %q, want %q", trunc(*got), trunc(v))
		}
		if g := b.GetStringWithDefault(field, "DEF"); g != v {
			return "GetStringWithDefault differs"
		}
	case int32:
		if g := b.GetInt32(field); g == nil || *g != v {
			return fmt.Sprint("GetInt32 ", ptr(g), " want ", v)
		}
		if g := b.GetInt64(field); g == nil || *g != int64(v) {
			return fmt.Sprint("GetInt64 (widening) ", ptr(g), " want ", v)
		}
		if g := b.GetInt64WithDefault(field, 99); g != int64(v) {
			return fmt.Sprint("GetInt64WithDefault ", g, " want ", v)
		}
	case int64:
		if g := b.GetInt64(field); g == nil || *g != v {
			return fmt.Sprint("GetInt64 ", ptr(g), " want ", v)
		}
	case float64:
		g := b.GetFloat64(field)
		if g == nil || math.Float64bits(*g) != math.Float64bits(v) && !(math.IsNaN(*g) && math.IsNaN(v)) {
			return fmt.Sprint("GetFloat64 ", ptr(g), " want ", v)
		}
	case bool:
		if g := b.GetBool(field); g == nil || *g != v {
			return fmt.Sprint("GetBool ", ptr(g), " want ", v)
		}
		if g := b.GetBoolWithDefault(field, !v); g != v {
			return "GetBoolWithDefault differs"
		}
	case time.Time:
		g := b.GetTime(field)
		if g == nil || !g.Equal(v) {
			return fmt.Sprint("GetTime ", g, " want ", v)
		}
	case []string:
		got := b.GetStringList(field)
		if strings.Join(got, "\x01") != strings.Join(normList(v), "\x01") || len(got) != len(normList(v)) {
			return fmt.Sprintf("GetStringList %q, want %q", got, normList(v))
		}
		if sub == nil {
			return "string list is not a sub-bucket"
		}
	case map[string]interface{}:
		if got := b.GetMap(field); !reflect.DeepEqual(normAny(got), normAny(v)) {
			return fmt.Sprintf("GetMap %v, want %v", got, v)
		}
	case []interface{}:
		got := b.GetList(field)
		if len(got) != len(v) || (len(v) > 0 && !reflect.DeepEqual(normAny(got), normAny(v))) {
			return fmt.Sprintf("GetList %v, want %v", got, v)
		}
	}
	return ""
}

func trunc(s string) string {
	if len(s) > 40 {
		return s[:40] + fmt.Sprintf("...(%d)", len(s))
	}
	return s
}

func ptr(p any) string {
	v := reflect.ValueOf(p)
	if v.Kind() == reflect.Ptr {
		if v.IsNil() {
			return "nil"
		}
		return fmt.Sprint(v.Elem().Interface())
	}
	return fmt.Sprint(p)
}

type buMismatch struct {
	Steps string `json:"steps"`
	Step  int    `json:"step"`
	Field string `json:"field"`
	What  string `json:"what"`
	Sig   string `json:"sig"`
}

type buReport struct {
	Cases      int            `json:"cases"`
	Evals      int            `json:"evaluations"`
	NonTrivial int            `json:"distinct_nontrivial"`
	Mismatches int            `json:"mismatch_count"`
	BySig      map[string]int `json:"by_sig"`
	Samples    []buMismatch   `json:"mismatches"`
	Sample     []string       `json:"sample_cases"`
}

type buStep struct {
	Vals    map[string]string `json:"vals"`
	Checker []string          `json:"checker"`
	All     bool              `json:"all"`
	Err     string            `json:"err"`
	After   map[string]string `json:"after"`
}

func kindOfTok(t string) string {
	if i := strings.Index(t, ":"); i > 0 {
		return t[:i]
	}
	return t
}

// vreplay bucket --in behaviours.ndjson --scratch dir
func bucketMain(args []string) error {
	fs := flag.NewFlagSet("bucket", flag.ExitOnError)
	in := fs.String("in", "", "behaviours")
	scratch := fs.String("scratch", "", "scratch dir")
	_ = fs.Parse(args)
	logrus.SetOutput(io.Discard)
	f, err := os.Open(*in)
	if err != nil {
		return err
	}
	defer f.Close()
	path := filepath.Join(*scratch, "bucket.bolt")
	_ = os.Remove(path)
	db, err := bbolt.Open(path, 0600, &bbolt.Options{NoSync: true, NoFreelistSync: true})
	if err != nil {
		return err
	}
	defer func() { _ = db.Close(); _ = os.Remove(path) }()
	rep := buReport{BySig: map[string]int{}}
	sc := bufio.NewScanner(f)
	sc.Buffer(make([]byte, 1<<20), 1<<26)
	idx := 0
	for sc.Scan() {
		var beh struct {
			Steps []buStep `json:"steps"`
		}
		if err := json.Unmarshal(sc.Bytes(), &beh); err != nil {
			return err
		}
		idx++
		rep.Cases++
		name := fmt.Sprintf("b%d", idx)
		var desc []string
		nt := false
		var mm *buMismatch
		for si, st := range beh.Steps {
			desc = append(desc, fmt.Sprintf("write %v checker=%v(all=%v)", st.Vals, st.Checker, st.All))
			if len(st.Checker) == 1 {
				nt = true
			}
			var checker boltz.FieldChecker
			if !st.All {
				m := boltz.MapFieldChecker{}
				for _, c := range st.Checker {
					m[c] = struct{}{}
				}
				checker = m
				if idx%5 == 2 {
					// the same selection seen through two renaming layers (what PersistContext.WithFieldOverrides builds when a child and
					// its parent strategy both rename): the writer names the field f, the innermost checker knows it as f
					up, down := map[string]string{}, map[string]string{}
					for f := range st.Vals {
						up[f] = f + "~1"
						down[f+"~1"] = f
					}
					checker = boltz.NewMappedFieldChecker(boltz.NewMappedFieldChecker(m, down), up)
				}
			}
			var fields []string
			for f := range st.Vals {
				fields = append(fields, f)
			}
			sort.Strings(fields)
			var werr error
			func() {
				defer func() {
					if p := recover(); p != nil {
						werr = fmt.Errorf("panic: %v", p)
						mm = &buMismatch{Step: si, What: werr.Error(), Sig: "panic:write"}
					}
				}()
				werr = db.Update(func(tx *bbolt.Tx) error {
					tb := boltz.GetOrCreatePath(tx, "buckets", name)
					for fi, f := range fields {
						if idx%3 == 1 {
							// the same field written twice in one transaction: the later write is the value (nothing of the earlier one stays)
							writePrior(tb, f, st.Vals[f], checker)
						}
						write(tb, f, st.Vals[f], checker, idx+si+fi)
					}
					return tb.GetError()
				})
			}()
			if mm != nil {
				break
			}
			if (werr != nil) != (st.Err != "ok") {
				mm = &buMismatch{Step: si, What: fmt.Sprintf("write returned %v, model says %s", werr, st.Err), Sig: "error:" + st.Err}
				break
			}
			// read back in a later transaction
			func() {
				defer func() {
					if p := recover(); p != nil {
						mm = &buMismatch{Step: si, What: fmt.Sprint("panic: ", p), Sig: "panic:read"}
					}
				}()
				_ = db.View(func(tx *bbolt.Tx) error {
					tb := boltz.Path(tx, "buckets", name)
					for _, f := range fields {
						rep.Evals++
						if tb == nil {
							if st.After[f] != "absent" {
								mm = &buMismatch{Step: si, Field: f, What: "bucket missing", Sig: "missing"}
							}
							continue
						}
						if what := readBack(tb, f, st.After[f]); what != "" && mm == nil {
							sel := "selected"
							if !st.All && !contains(st.Checker, f) {
								sel = "unselected"
							}
							mm = &buMismatch{Step: si, Field: f, What: fmt.Sprintf("expect %s: %s", st.After[f], what), Sig: "value:" + kindOfTok(st.After[f]) + ":" + sel}
						}
					}
					return nil
				})
			}()
			if mm != nil {
				break
			}
		}
		if nt {
			rep.NonTrivial++
		}
		if idx%20011 == 3 && len(rep.Sample) < 4 {
			rep.Sample = append(rep.Sample, strings.Join(desc, " ; "))
		}
		if mm != nil {
			mm.Steps = strings.Join(desc, " ; ")
			rep.Mismatches++
			rep.BySig[mm.Sig]++
			if rep.BySig[mm.Sig] <= 2 && len(rep.Samples) < 40 {
				rep.Samples = append(rep.Samples, *mm)
			}
		}
	}
	out, _ := json.Marshal(rep)
	fmt.Println(string(out))
	return nil
}

func contains(xs []string, x string) bool {
	for _, y := range xs {
		if y == x {
			return true
		}
	}
	return false
}

// ---- codec

type coReport struct {
	Cases      int            `json:"cases"`
	NonTrivial int            `json:"distinct_nontrivial"`
	Mismatches int            `json:"mismatch_count"`
	BySig      map[string]int `json:"by_sig"`
	Samples    []string       `json:"mismatches"`
	Sample     []string       `json:"sample_cases"`
}

// vreplay codec --in cases.ndjson
func codecMain(args []string) error {
	fs := flag.NewFlagSet("codec", flag.ExitOnError)
	in := fs.String("in", "", "cases")
	_ = fs.Parse(args)
	f, err := os.Open(*in)
	if err != nil {
		return err
	}
	defer f.Close()
	rep := coReport{BySig: map[string]int{}}
	seenEnc := map[string]string{}
	sc := bufio.NewScanner(f)
	sc.Buffer(make([]byte, 1<<20), 1<<26)
	for sc.Scan() {
		var c struct {
			List []struct {
				N int `json:"n"`
				C int `json:"c"`
			} `json:"list"`
			Encoded [][]int `json:"encoded"`
		}
		if err := json.Unmarshal(sc.Bytes(), &c); err != nil {
			return err
		}
		rep.Cases++
		var list []string
		for _, s := range c.List {
			list = append(list, strings.Repeat(string([]byte{byte(s.C)}), s.N))
		}
		var want []byte
		for _, r := range c.Encoded {
			want = append(want, bytes.Repeat([]byte{byte(r[1])}, r[0])...)
		}
		if len(list) >= 2 {
			rep.NonTrivial++
		}
		add := func(sig, what string) {
			rep.Mismatches++
			rep.BySig[sig]++
			if rep.BySig[sig] <= 3 {
				rep.Samples = append(rep.Samples, fmt.Sprintf("%s: list lens %v: %s", sig, lens(list), what))
			}
		}
		func() {
			defer func() {
				if p := recover(); p != nil {
					add("panic", fmt.Sprint(p))
				}
			}()
			enc, err := boltz.EncodeStringSlice(list)
			if err != nil {
				add("encode-error", err.Error())
				return
			}
			if !bytes.Equal(enc, want) {
				add("bytes", fmt.Sprintf("encoding differs from uvarint(len).bytes (got %d bytes, want %d)", len(enc), len(want)))
			}
			if prev, dup := seenEnc[string(enc)]; dup && prev != strings.Join(list, "\x01|") {
				add("collision", "two lists share an encoding")
			}
			seenEnc[string(enc)] = strings.Join(list, "\x01|")
			dec, err := boltz.DecodeStringSlice(enc)
			if err != nil {
				add("decode-error", err.Error())
				return
			}
			if len(dec) != len(list) || strings.Join(dec, "\x01|") != strings.Join(list, "\x01|") {
				add("roundtrip", fmt.Sprintf("decoded lens %v", lens(dec)))
			}
		}()
		if rep.Cases%500 == 7 && len(rep.Sample) < 4 {
			rep.Sample = append(rep.Sample, fmt.Sprintf("list lens %v -> %d bytes", lens(list), len(want)))
		}
	}
	out, _ := json.Marshal(rep)
	fmt.Println(string(out))
	return nil
}

func lens(l []string) []int {
	out := make([]int, len(l))
	for i, s := range l {
		out[i] = len(s)
	}
	return out
}
