package main

import (
	"bufio"
	"context"
	"encoding/json"
	"flag"
	"fmt"
	"io"
	"os"
	"path/filepath"
	"sort"
	"strings"

	"github.com/openziti/storage/ast"
	"github.com/openziti/storage/boltz"
	"github.com/sirupsen/logrus"
	"go.etcd.io/bbolt"
	"verif/harness/internal/schema"
)

// byte strings of the ranks of Cursor.tla (rank order = byte order)
var rankStr = []string{"?", "", "0", "a", "a\x00", "aa", "ab", "b", "c", "d"}

type cuCase struct {
	Set []int `json:"set"`
	Fwd bool  `json:"fwd"`
	Ops []struct {
		Op string `json:"op"`
		V  int    `json:"v"`
	} `json:"ops"`
	Obs []struct {
		Valid bool `json:"valid"`
		Cur   int  `json:"cur"`
	} `json:"obs"`
}

type cuMismatch struct {
	Kind string   `json:"cursor"`
	Set  []string `json:"set"`
	Fwd  bool     `json:"fwd"`
	Ops  string   `json:"ops"`
	Step int      `json:"step"`
	Want string   `json:"want"`
	Got  string   `json:"got"`
	Sig  string   `json:"sig"`
}

type cuReport struct {
	Cases      int            `json:"cases"`
	Runs       int            `json:"runs"` // (case, cursor kind) pairs executed
	Kinds      map[string]int `json:"kinds"`
	NonTrivial int            `json:"distinct_nontrivial"` // cases with at least two elements and one operation
	Mismatches int            `json:"mismatch_count"`
	BySig      map[string]int `json:"by_sig"`
	Samples    []cuMismatch   `json:"mismatches"`
	Sample     []string       `json:"sample_cases"`
}

// one database per element set, holding the set in every structure a cursor can be opened on
type cuEnv struct {
	db      *boltz.DbImpl
	path    string
	S       *schema.Stores
	set     []string
	hasE    bool // the set contains ""
	setKey  string
	idxKeys []string
}

const (
	person = "P"
	boss   = "B"
	decoy  = "Z"
)

func newCuEnv(dir string, set []string) (*cuEnv, error) {
	path := filepath.Join(dir, "cursor.bolt")
	_ = os.Remove(path)
	db, err := boltz.Open(path, "stores")
	if err != nil {
		return nil, err
	}
	env := &cuEnv{db: db, path: path, set: set, S: schema.New(schema.Config{BossMode: "idxNull"})}
	for _, e := range set {
		if e == "" {
			env.hasE = true
		}
	}
	if err = env.S.Init(db); err != nil {
		return nil, err
	}
	err = db.Update(nil, func(ctx boltz.MutateContext) error {
		tx := ctx.Tx()
		// raw and typed scratch buckets
		scratch := boltz.GetOrCreatePath(tx, "scratch")
		raw := scratch.GetOrCreateBucket("raw")
		all := scratch.GetOrCreateBucket("all") // the whole universe, for filtered cursors
		for _, e := range set {
			if e != "" {
				raw.PutValue([]byte(e), []byte{1})
			}
		}
		scratch.SetStringList("typed", set, nil)
		var universe []string
		for _, r := range []int{1, 3, 4, 6, 7, 8} {
			universe = append(universe, rankStr[r])
		}
		scratch.SetStringList("universe", universe, nil)
		// halves for the union cursor
		var a, b []string
		for i, e := range set {
			if i%2 == 0 || i == 0 {
				a = append(a, e)
			}
			if i%2 == 1 || i == 0 {
				b = append(b, e)
			}
		}
		scratch.SetStringList("halfA", a, nil)
		scratch.SetStringList("halfB", b, nil)
		_ = all
		if scratch.HasError() {
			return scratch.GetError()
		}
		if env.hasE {
			return nil // the store-level structures cannot hold "" (ids, index keys, link targets)
		}
		// teams and people whose ids are the elements
		for _, e := range set {
			if err := env.S.Teams.Create(ctx, &schema.Team{Id: e}); err != nil {
				return err
			}
		}
		members := map[string]bool{}
		for _, e := range set {
			members[e] = true
		}
		mk := func(id string, roles []string, bossId *string, teams []string) error {
			p := &schema.Person{Name: "n-" + id, Roles: roles, Boss: bossId}
			p.Id = id
			var err error
			if members[id] { // the elements of the set are the entities with child data
				err = env.S.Staff.Create(ctx, &schema.Staff{Person: *p, Grade: "g-" + id})
			} else {
				err = env.S.People.Create(ctx, p)
			}
			if err != nil {
				return err
			}
			return env.S.People.Links.AddLinks(tx, id, teams...)
		}
		if err := mk(boss, nil, nil, nil); err != nil {
			return err
		}
		b2 := boss
		for _, e := range set {
			if err := mk(e, []string{"r", "q", "p", "w"}, &b2, nil); err != nil {
				return err
			}
		}
		if err := mk(decoy, []string{"r"}, nil, nil); err != nil { // has r but not q: filtered out by AllOf
			return err
		}
		// a second, never empty back-reference set (decoy's reports): a runtime set symbol is re-used from row to row
		d2 := decoy
		if err := mk("zz-helper", []string{"r"}, &d2, nil); err != nil {
			return err
		}
		// has w but not r (r is the more common value: two entities outside the set hold it, one holds w)
		if err := mk("Zw", []string{"w"}, nil, nil); err != nil {
			return err
		}
		// one person holding the set as roles, link set and ref-counted link set
		if err := mk(person, set, nil, set); err != nil {
			return err
		}
		for i, e := range set {
			for k := 0; k <= i%2; k++ {
				if _, err := env.S.People.Rc.IncrementLinkCount(tx, []byte(person), []byte(e)); err != nil {
					return err
				}
			}
		}
		// looking a value up that nobody holds -- in this write transaction -- is a read: the index has no key for it afterwards
		if c := env.S.People.IdxRoles.OpenValueCursor(tx, []byte("zzz-nobody-has-this"), true); c != nil && c.IsValid() {
			return fmt.Errorf("a value cursor over an absent value is valid")
		}
		return nil
	})
	return env, err
}

func (e *cuEnv) close() { _ = e.db.Close(); _ = os.Remove(e.path) }

type cursorKind struct {
	name      string
	needsNoE  bool // cannot hold the empty string
	fwdOnly   bool
	open      func(env *cuEnv, tx *bbolt.Tx, fwd bool) ast.SetCursor
	seekByStr bool // seek through SeekToString
}

func member(set []string) func([]byte) bool {
	m := map[string]bool{}
	for _, s := range set {
		m[s] = true
	}
	return func(v []byte) bool { return m[string(v)] }
}

var cursorKinds = []cursorKind{
	{name: "raw", needsNoE: true, open: func(e *cuEnv, tx *bbolt.Tx, fwd bool) ast.SetCursor {
		return boltz.NewBoltCursor(boltz.Path(tx, "scratch", "raw").Cursor(), fwd)
	}},
	{name: "bucket.OpenCursor", needsNoE: true, open: func(e *cuEnv, tx *bbolt.Tx, fwd bool) ast.SetCursor {
		return boltz.Path(tx, "scratch", "raw").OpenCursor(tx, fwd)
	}},
	{name: "bucket.OpenSeekableCursor", needsNoE: true, fwdOnly: true, open: func(e *cuEnv, tx *bbolt.Tx, fwd bool) ast.SetCursor {
		return boltz.Path(tx, "scratch", "raw").OpenSeekableCursor()
	}},
	{name: "typed.IterateStringListInDirection", open: func(e *cuEnv, tx *bbolt.Tx, fwd bool) ast.SetCursor {
		return boltz.Path(tx, "scratch", "typed").IterateStringListInDirection(fwd)
	}},
	{name: "typed.IterateStringList", fwdOnly: true, open: func(e *cuEnv, tx *bbolt.Tx, fwd bool) ast.SetCursor {
		return boltz.Path(tx, "scratch", "typed").IterateStringList()
	}},
	{name: "typed.OpenTypedCursor", open: func(e *cuEnv, tx *bbolt.Tx, fwd bool) ast.SetCursor {
		return boltz.Path(tx, "scratch", "typed").OpenTypedCursor(tx, fwd)
	}},
	{name: "tree", open: func(e *cuEnv, tx *bbolt.Tx, fwd bool) ast.SetCursor {
		ts := ast.NewTreeSet(fwd)
		for i := len(e.set) - 1; i >= 0; i-- {
			ts.Add([]byte(e.set[i]))
		}
		return ts.ToCursor()
	}},
	{name: "filtered", open: func(e *cuEnv, tx *bbolt.Tx, fwd bool) ast.SetCursor {
		return ast.NewFilteredCursor(boltz.Path(tx, "scratch", "universe").IterateStringListInDirection(fwd), member(e.set))
	}},
	{name: "union", open: func(e *cuEnv, tx *bbolt.Tx, fwd bool) ast.SetCursor {
		return ast.NewUnionSetCursor(boltz.Path(tx, "scratch", "halfA").IterateStringListInDirection(fwd),
			boltz.Path(tx, "scratch", "halfB").IterateStringListInDirection(fwd), fwd)
	}},
	{name: "empty-union", open: func(e *cuEnv, tx *bbolt.Tx, fwd bool) ast.SetCursor {
		return ast.NewUnionSetCursor(boltz.Path(tx, "scratch", "typed").IterateStringListInDirection(fwd), ast.NewEmptyCursor(), fwd)
	}},
	{name: "index.OpenValueCursor", needsNoE: true, open: func(e *cuEnv, tx *bbolt.Tx, fwd bool) ast.SetCursor {
		return ast.NewFilteredCursor(e.S.People.IdxRoles.OpenValueCursor(tx, []byte("q"), fwd), func(v []byte) bool { return true })
	}},
	{name: "index.OpenValueCursor-seek", needsNoE: true, open: func(e *cuEnv, tx *bbolt.Tx, fwd bool) ast.SetCursor {
		return e.S.People.IdxRoles.OpenValueCursor(tx, []byte("q"), fwd)
	}},
	{name: "index.OpenKeyCursor", needsNoE: true, open: func(e *cuEnv, tx *bbolt.Tx, fwd bool) ast.SetCursor {
		// keys: the roles of P (= the set) plus q and r, which sort after every element: filter them out
		return ast.NewFilteredCursor(e.S.People.IdxRoles.OpenKeyCursor(tx, fwd), func(v []byte) bool {
			return string(v) != "q" && string(v) != "r" && string(v) != "p" && string(v) != "w"
		})
	}},
	{name: "IteratorMatchingAllOf", needsNoE: true, open: func(e *cuEnv, tx *bbolt.Tx, fwd bool) ast.SetCursor {
		// (three values, given in no particular order)
		return e.S.People.IteratorMatchingAllOf(e.S.People.IdxRoles, []string{"r", "q", "p"})(tx, fwd)
	}},
	{name: "IteratorMatchingAllOf-commonFirst", needsNoE: true, open: func(e *cuEnv, tx *bbolt.Tx, fwd bool) ast.SetCursor {
		// (the first value is the more common one; an entity outside the set holds only the second)
		return e.S.People.IteratorMatchingAllOf(e.S.People.IdxRoles, []string{"r", "w"})(tx, fwd)
	}},
	{name: "IteratorMatchingAnyOf", needsNoE: true, open: func(e *cuEnv, tx *bbolt.Tx, fwd bool) ast.SetCursor {
		return e.S.People.IteratorMatchingAnyOf(e.S.People.IdxRoles, []string{"q", "zz"})(tx, fwd)
	}},
	{name: "IteratorMatchingAnyOf-two", needsNoE: true, open: func(e *cuEnv, tx *bbolt.Tx, fwd bool) ast.SetCursor {
		// two values that both have entities (the same ones): every id once
		return e.S.People.IteratorMatchingAnyOf(e.S.People.IdxRoles, []string{"q", "p"})(tx, fwd)
	}},
	{name: "IteratorMatchingAnyOf-absent", needsNoE: true, open: func(e *cuEnv, tx *bbolt.Tx, fwd bool) ast.SetCursor {
		if len(e.set) > 0 {
			return e.S.People.IteratorMatchingAnyOf(e.S.People.IdxRoles, []string{"q"})(tx, fwd)
		}
		return e.S.People.IteratorMatchingAnyOf(e.S.People.IdxRoles, []string{"zz", "yy"})(tx, fwd) // nothing has these values
	}},
	{name: "GetRelatedEntitiesCursor", needsNoE: true, open: func(e *cuEnv, tx *bbolt.Tx, fwd bool) ast.SetCursor {
		return e.S.People.GetRelatedEntitiesCursor(tx, boss, schema.FRep, fwd)
	}},
	{name: "links.IterateLinks", needsNoE: true, fwdOnly: true, open: func(e *cuEnv, tx *bbolt.Tx, fwd bool) ast.SetCursor {
		return e.S.People.Links.IterateLinks(tx, []byte(person))
	}},
	{name: "links.IterateLinks+neverLinked", needsNoE: true, fwdOnly: true, open: func(e *cuEnv, tx *bbolt.Tx, fwd bool) ast.SetCursor {
		// ... united with the links of an entity that never had any (in a read transaction nothing can be created for it: an empty set)
		return ast.NewUnionSetCursor(e.S.People.Links.IterateLinks(tx, []byte(person)), e.S.People.Links.IterateLinks(tx, []byte(decoy)), true)
	}},
	{name: "rclinks.IterateLinks", needsNoE: true, open: func(e *cuEnv, tx *bbolt.Tx, fwd bool) ast.SetCursor {
		return e.S.People.Rc.IterateLinks(tx, []byte(person), fwd)
	}},
	{name: "setSymbol.OpenCursor", needsNoE: true, fwdOnly: true, seekByStr: true, open: func(e *cuEnv, tx *bbolt.Tx, fwd bool) ast.SetCursor {
		sym := e.S.People.GetSymbol(schema.FRoles).(boltz.RuntimeEntitySetSymbol)
		return sym.OpenCursor(tx, []byte(person))
	}},
	{name: "setSymbol.reopened", needsNoE: true, fwdOnly: true, seekByStr: true, open: func(e *cuEnv, tx *bbolt.Tx, fwd bool) ast.SetCursor {
		// the query engine keeps one runtime symbol per name and re-opens it for every row: first a row with a non-empty set, left
		// un-exhausted, then the row under test (which has no bucket at all when its set is empty)
		sym := e.S.People.GetSymbol(schema.FRep).(boltz.RuntimeEntitySetSymbol)
		_ = sym.OpenCursor(tx, []byte(decoy))
		return sym.OpenCursor(tx, []byte(boss))
	}},
	{name: "child.IterateIds", needsNoE: true, fwdOnly: true, open: func(e *cuEnv, tx *bbolt.Tx, fwd bool) ast.SetCursor {
		// the plain child store enumerates the entities that have child data (the elements of the set), not its parent's other rows
		return e.S.Staff.IterateIds(tx, ast.BoolNodeTrue)
	}},
	{name: "child.IterateValidIds", needsNoE: true, fwdOnly: true, open: func(e *cuEnv, tx *bbolt.Tx, fwd bool) ast.SetCursor {
		return e.S.Staff.IterateValidIds(tx, ast.BoolNodeTrue)
	}},
	{name: "store.IterateIds", needsNoE: true, fwdOnly: true, open: func(e *cuEnv, tx *bbolt.Tx, fwd bool) ast.SetCursor {
		return e.S.Teams.IterateIds(tx, ast.BoolNodeTrue)
	}},
	{name: "store.IterateValidIds", needsNoE: true, fwdOnly: true, open: func(e *cuEnv, tx *bbolt.Tx, fwd bool) ast.SetCursor {
		return e.S.Teams.IterateValidIds(tx, ast.BoolNodeTrue)
	}},
}

func obsStr(valid bool, cur string) string {
	if !valid {
		return "invalid"
	}
	return fmt.Sprintf("%q", cur)
}

// vreplay cursor --in cases.ndjson --scratch dir
func cursorMain(args []string) error {
	fs := flag.NewFlagSet("cursor", flag.ExitOnError)
	in := fs.String("in", "", "cases")
	scratch := fs.String("scratch", "", "scratch dir")
	_ = fs.Parse(args)
	logrus.SetOutput(io.Discard)
	f, err := os.Open(*in)
	if err != nil {
		return err
	}
	defer f.Close()
	bySet := map[string][]cuCase{}
	sc := bufio.NewScanner(f)
	sc.Buffer(make([]byte, 1<<20), 1<<26)
	for sc.Scan() {
		var c cuCase
		if err := json.Unmarshal(sc.Bytes(), &c); err != nil {
			return err
		}
		sort.Ints(c.Set)
		bySet[fmt.Sprint(c.Set)] = append(bySet[fmt.Sprint(c.Set)], c)
	}
	rep := cuReport{BySig: map[string]int{}, Kinds: map[string]int{}}
	var keys []string
	for k := range bySet {
		keys = append(keys, k)
	}
	sort.Strings(keys)
	for _, k := range keys {
		cases := bySet[k]
		var set []string
		for _, r := range cases[0].Set {
			set = append(set, rankStr[r])
		}
		env, err := newCuEnv(*scratch, set)
		if err != nil {
			return fmt.Errorf("building set %q: %w", set, err)
		}
		for ci, c := range cases {
			rep.Cases++
			if len(set) >= 2 && len(c.Ops) >= 1 {
				rep.NonTrivial++
			}
			var opsStr []string
			hasSeek := false
			for _, o := range c.Ops {
				if o.Op == "seek" {
					hasSeek = true
					opsStr = append(opsStr, fmt.Sprintf("seek(%q)", rankStr[o.V]))
				} else {
					opsStr = append(opsStr, "next")
				}
			}
			if ci%4001 == 7 && len(rep.Sample) < 5 {
				rep.Sample = append(rep.Sample, fmt.Sprintf("set %q fwd=%v ops %v", set, c.Fwd, opsStr))
			}
			for _, kind := range cursorKinds {
				if (kind.needsNoE && env.hasE) || (kind.fwdOnly && !c.Fwd) {
					continue
				}
				kind := kind
				var mm *cuMismatch
				report := func(step int, want, got string) {
					if mm == nil {
						mm = &cuMismatch{Kind: kind.name, Set: set, Fwd: c.Fwd, Ops: strings.Join(opsStr, " "), Step: step, Want: want, Got: got}
					}
				}
				skipped := false
				func() {
					defer func() {
						if p := recover(); p != nil {
							report(-1, "no panic", fmt.Sprint("panic: ", p))
						}
					}()
					_ = env.db.View(func(tx *bbolt.Tx) error {
						cur := kind.open(env, tx, c.Fwd)
						seek, seekable := cur.(ast.SeekableSetCursor)
						if hasSeek && !seekable {
							skipped = true
							return nil
						}
						check := func(step int) {
							want := c.Obs[step]
							got := obsStr(cur.IsValid(), "")
							if cur.IsValid() {
								got = obsStr(true, string(cur.Current()))
							}
							if w := obsStr(want.Valid, rankStr[want.Cur]); w != got {
								report(step, w, got)
							}
						}
						check(0)
						for i, o := range c.Ops {
							if mm != nil {
								break
							}
							if o.Op == "next" {
								if cur.IsValid() { // Next on an exhausted cursor is not part of the contract: it stays exhausted
									cur.Next()
								}
							} else if ts, ok := cur.(ast.TypeSeekableSetCursor); ok && kind.seekByStr {
								ts.SeekToString(rankStr[o.V])
							} else {
								seek.Seek([]byte(rankStr[o.V]))
							}
							check(i + 1)
						}
						return nil
					})
				}()
				if skipped {
					continue
				}
				rep.Runs++
				rep.Kinds[kind.name]++
				if mm != nil {
					dir := "fwd"
					if !c.Fwd {
						dir = "rev"
					}
					what := "enumerate"
					if hasSeek {
						what = "seek"
					}
					if strings.HasPrefix(mm.Got, "panic") {
						what = "panic"
					}
					if env.hasE {
						what += ":empty-string-element"
					}
					mm.Sig = kind.name + ":" + dir + ":" + what
					rep.Mismatches++
					rep.BySig[mm.Sig]++
					if rep.BySig[mm.Sig] <= 2 && len(rep.Samples) < 60 {
						rep.Samples = append(rep.Samples, *mm)
					}
				}
			}
		}
		env.close()
	}
	out, _ := json.Marshal(rep)
	fmt.Println(string(out))
	return nil
}

var _ = context.Background
