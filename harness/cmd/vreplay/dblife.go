package main

import (
	"bufio"
	"bytes"
	"context"
	"encoding/json"
	"flag"
	"fmt"
	"io"
	"os"
	"path/filepath"
	"strings"
	"sync"
	"sync/atomic"
	"time"

	"github.com/openziti/storage/boltz"
	"github.com/sirupsen/logrus"
	"go.etcd.io/bbolt"
	"verif/harness/internal/project"
	"verif/harness/internal/schema"
	"verif/harness/internal/storerun"
)

type dlStep struct {
	Last     map[string]any `json:"last"`
	Content  int            `json:"content"`
	Meta     map[string]any `json:"meta"`
	Notified int            `json:"notified"`
}

type dlMismatch struct {
	Case int    `json:"case"`
	Step int    `json:"step"`
	Ops  string `json:"ops"`
	Kind string `json:"kind"`
	What string `json:"what"`
	Sig  string `json:"sig"`
}

type dlReport struct {
	Cases      int            `json:"cases"`
	Steps      int            `json:"steps"`
	NonTrivial int            `json:"distinct_nontrivial"` // behaviours containing a restore
	Mismatches int            `json:"mismatch_count"`
	BySig      map[string]int `json:"by_sig"`
	Samples    []dlMismatch   `json:"mismatches"`
	Sample     []string       `json:"sample_cases"`
	Gate       map[string]any `json:"gate,omitempty"`
	Stress     map[string]any `json:"stress,omitempty"`
}

// writeVersion makes the whole content a function of the version number: entities, indexes, links, child data
func writeVersion(env *storerun.Env, v int) error {
	S := env.S
	return env.Db.Update(nil, func(ctx boltz.MutateContext) error {
		tx := ctx.Tx()
		name := fmt.Sprintf("ver-%d", v)
		if !S.Teams.IsEntityPresent(tx, "t1") {
			if err := S.Teams.Create(ctx, &schema.Team{Id: "t1"}); err != nil {
				return err
			}
		}
		p := &schema.Person{Name: name, Roles: []string{name, "all"}}
		p.Id = "p1"
		p.Tags = map[string]interface{}{"v": int64(v)}
		if S.People.IsEntityPresent(tx, "p1") {
			if err := S.People.Update(ctx, p, nil); err != nil {
				return err
			}
		} else if err := S.People.Create(ctx, p); err != nil {
			return err
		}
		// an entity that exists in odd versions only, with child data and a link
		if v%2 == 1 {
			if !S.People.IsEntityPresent(tx, "odd") {
				st := &schema.Staff{Person: schema.Person{Name: "odd-" + name}, Grade: "g" + name}
				st.Id = "odd"
				if err := S.Staff.Create(ctx, st); err != nil {
					return err
				}
				if err := S.People.Links.AddLinks(tx, "odd", "t1"); err != nil {
					return err
				}
			}
		} else if S.People.IsEntityPresent(tx, "odd") {
			if err := S.People.DeleteById(ctx, "odd"); err != nil {
				return err
			}
		}
		return nil
	})
}

func contentLines(env *storerun.Env) []string {
	var n *project.Node
	_ = env.Db.View(func(tx *bbolt.Tx) error { n = project.Dump(tx); return nil })
	return n.Lines(func(path []string, key string) bool { return len(path) == 0 && key == boltz.Metadata })
}

func metaOf(env *storerun.Env) (snap string, reset bool, timeline string) {
	_ = env.Db.View(func(tx *bbolt.Tx) error {
		if b := boltz.Path(tx, boltz.Metadata); b != nil {
			if s := b.GetString(boltz.SnapshotId); s != nil {
				snap = *s
			}
			reset = b.GetBoolWithDefault(boltz.ResetTimeline, false)
			if s := b.GetString(boltz.TimelineId); s != nil {
				timeline = *s
			}
		}
		return nil
	})
	return
}

// gateReader hands out the first chunk of a snapshot and then holds the stream until the gate opens: the restore that reads
// from it stays in its transfer window (before it takes the reload lock) for as long as the replay wants
type gateReader struct {
	data    []byte
	off     int
	gate    chan struct{}
	entered chan struct{}
	once    sync.Once
}

func (g *gateReader) Read(p []byte) (int, error) {
	if g.off >= len(g.data) {
		return 0, io.EOF
	}
	if g.off > 0 {
		g.once.Do(func() { close(g.entered); <-g.gate })
	}
	n := copy(p[:min(len(p), 1000)], g.data[g.off:]) // (short reads: a stream hands out what it has)
	g.off += n
	return n, nil
}

// chunkReader is a stream that returns at most chunk bytes per Read (a network stream, a pipe)
type chunkReader struct {
	data  []byte
	off   int
	chunk int
}

func (c *chunkReader) Read(p []byte) (int, error) {
	if c.off >= len(c.data) {
		return 0, io.EOF
	}
	n := copy(p[:min(len(p), c.chunk)], c.data[c.off:])
	c.off += n
	return n, nil
}

type dlWindow struct {
	r     *gateReader
	done  chan struct{}
	panic any
}

func runDbLife(dir string, idx int, steps []dlStep, add func(step int, kind, what string)) {
	env, err := storerun.NewEnv(dir, schema.Config{BossMode: "idxNull", TeamMode: "off"}, project.NewTokens(nil))
	if err != nil {
		add(-1, "harness", err.Error())
		return
	}
	defer env.Close()
	var notified int64
	env.Db.AddRestoreListener(func() { atomic.AddInt64(&notified, 1) })
	if idx%2 == 1 {
		// an application callback that panics inside a read transaction (and recovers): the transaction is over, nothing of it stays
		func() {
			defer func() { _ = recover() }()
			_ = env.Db.View(func(*bbolt.Tx) error { panic("application panic inside a read transaction") })
		}()
	}
	contentAt := map[int][]string{0: contentLines(env)}
	version := 0
	type snap struct {
		id    string
		path  string
		data  []byte
		lines []string
		file  string // kept on disk (at the default snapshot location) and restored by streaming the file itself
	}
	var snaps []snap
	idCalls := 0
	var win *dlWindow
	closeWindow := func() bool {
		close(win.r.gate)
		select {
		case <-win.done:
		case <-time.After(20 * time.Second):
			return false
		}
		return true
	}
	defer func() {
		if win != nil {
			closeWindow()
		}
	}()
	tlName := func(n int) string {
		if n == 0 {
			return ""
		}
		return fmt.Sprintf("tl-%d", n)
	}
	for si, st := range steps {
		op := fmt.Sprint(st.Last["op"])
		switch op {
		case "write":
			version = st.Content
			if err := writeVersion(env, version); err != nil {
				add(si, "harness", "write: "+err.Error())
				return
			}
			contentAt[version] = contentLines(env)
		case "snapshot":
			before := contentLines(env)
			bs, br, bt := metaOf(env)
			path := filepath.Join(dir, fmt.Sprintf("snap-%d-%d.bolt", idx, len(snaps)))
			// every third behaviour keeps its first snapshot where the library suggests (next to the database, named after the
			// current second) and later restores from that very file
			keep := len(snaps) == 0 && idx%3 == 0
			if keep {
				path = env.Db.GetDefaultSnapshotPath()
			}
			_ = os.Remove(path)
			actual, id, err := env.Db.Snapshot(path)
			if err != nil {
				add(si, "snapshot-error", err.Error())
				return
			}
			data, _ := os.ReadFile(actual)
			kept := ""
			if keep {
				kept = actual
				defer os.Remove(actual)
			} else {
				_ = os.Remove(actual)
			}
			snaps = append(snaps, snap{id: id, path: actual, data: data, lines: before, file: kept})
			if d := project.DiffLines(before, contentLines(env)); len(d) > 0 {
				add(si, "snapshot-changed-source", strings.Join(d[:min(3, len(d))], "; "))
			}
			if as, ar, at := metaOf(env); as != bs || ar != br || at != bt {
				add(si, "snapshot-changed-source-meta", fmt.Sprintf("meta before (%q,%v,%q) after (%q,%v,%q)", bs, br, bt, as, ar, at))
			}
		case "restoreBegin":
			s := int(st.Last["s"].(float64)) - 1
			w := &dlWindow{r: &gateReader{data: snaps[s].data, gate: make(chan struct{}), entered: make(chan struct{})}, done: make(chan struct{})}
			go func() {
				defer close(w.done)
				defer func() { w.panic = recover() }()
				env.Db.RestoreFromReader(w.r)
			}()
			select {
			case <-w.r.entered:
			case <-w.done:
				add(si, "restore-window", fmt.Sprintf("RestoreFromReader returned without reading the stream to its end (panic: %v)", w.panic))
				return
			case <-time.After(10 * time.Second):
				add(si, "harness", "the restore did not reach its transfer window")
				return
			}
			win = w
		case "restore":
			s := int(st.Last["s"].(float64)) - 1
			if win != nil {
				w := win
				ok := closeWindow()
				win = nil
				if !ok {
					add(si, "restore-window", "the restore did not finish after its stream ended")
					return
				}
				if w.panic != nil {
					add(si, "restore-window", fmt.Sprintf("restore panicked: %v", w.panic))
					return
				}
			} else if snaps[s].file != "" {
				if f, err := os.Open(snaps[s].file); err != nil {
					add(si, "harness", "kept snapshot: "+err.Error())
					return
				} else {
					env.Db.RestoreFromReader(f)
					_ = f.Close()
					// (the file is a snapshot: reading it does not change it)
					if now, _ := os.ReadFile(snaps[s].file); !bytes.Equal(now, snaps[s].data) {
						add(si, "restore-changed-snapshot", "the snapshot file differs after it was restored from")
						return
					}
				}
			} else if (si+idx)%2 == 0 {
				env.Db.RestoreSnapshot(snaps[s].data)
			} else if (si+idx)%4 == 1 {
				env.Db.RestoreFromReader(bytes.NewReader(snaps[s].data))
			} else {
				env.Db.RestoreFromReader(&chunkReader{data: snaps[s].data, chunk: 7 + 300*((si+idx)%5)})
			}
			if d := project.DiffLines(snaps[s].lines, contentLines(env)); len(d) > 0 {
				add(si, "restore-content", fmt.Sprintf("content after restore differs from the content at snapshot time: %s", strings.Join(d[:min(4, len(d))], "; ")))
				return
			}
			version = st.Content
			// (the same version number can be written twice -- restore to an older version, write again -- with other time stamps in
			// the entities: what "the content of this version" means from here on is what the restore brought back)
			contentAt[version] = snaps[s].lines
		case "getSnapshotId":
			got, err := env.Db.GetSnapshotId()
			want := ""
			if w := int(st.Last["ret"].(float64)); w > 0 {
				want = snaps[w-1].id
			}
			g := ""
			if got != nil {
				g = *got
			}
			if err != nil || g != want {
				add(si, "snapshot-id", fmt.Sprintf("GetSnapshotId = %q (%v), want %q", g, err, want))
			}
		case "getTimelineId":
			calls := 0
			got, err := env.Db.GetTimelineId(boltz.TimelineMode(fmt.Sprint(st.Last["mode"])), func() (string, error) {
				calls++
				idCalls++
				return tlName(idCalls), nil
			})
			want := tlName(int(st.Last["ret"].(float64)))
			wantCalls := int(st.Last["idCalls"].(float64))
			if err != nil || got != want || calls != wantCalls {
				add(si, "timeline-id", fmt.Sprintf("GetTimelineId(%v) = %q with %d id-function calls (%v), want %q with %d", st.Last["mode"], got, calls, err, want, wantCalls))
			}
		}
		// meta bucket and listeners after every step
		ms, mr, mt := metaOf(env)
		wantSnap := ""
		if w := int(st.Meta["snap"].(float64)); w > 0 {
			wantSnap = snaps[w-1].id
		}
		if ms != wantSnap || mr != (st.Meta["reset"] == true) || mt != tlName(int(st.Meta["timeline"].(float64))) {
			add(si, "meta", fmt.Sprintf("after %s: meta (snapshotId=%q reset=%v timeline=%q), model (snapshotId=%q reset=%v timeline=%q)", op, ms, mr, mt, wantSnap, st.Meta["reset"], tlName(int(st.Meta["timeline"].(float64)))))
			return
		}
		deadline := time.Now().Add(2 * time.Second)
		for atomic.LoadInt64(&notified) < int64(st.Notified) && time.Now().Before(deadline) {
			time.Sleep(200 * time.Microsecond)
		}
		if n := atomic.LoadInt64(&notified); n != int64(st.Notified) {
			add(si, "restore-listeners", fmt.Sprintf("restore listener invoked %d times, want %d", n, st.Notified))
			return
		}
		if d := project.DiffLines(contentAt[st.Content], contentLines(env)); len(d) > 0 && op != "restore" {
			add(si, "content", fmt.Sprintf("after %s the content is not that of version %d: %s", op, st.Content, strings.Join(d[:min(3, len(d))], "; ")))
			return
		}
	}
}

// gate: with the hook at restore.closed / restore.renamed a transaction is started exactly while the file is swapped;
// it must neither fail nor complete before the restore has reopened the database, and then see the restored content
func runGate(dir string) map[string]any {
	out := map[string]any{}
	env, err := storerun.NewEnv(dir, schema.Config{}, project.NewTokens(nil))
	if err != nil {
		out["harness"] = err.Error()
		return out
	}
	defer env.Close()
	defer boltz.SetVerifHook(nil)
	_ = writeVersion(env, 1)
	path := filepath.Join(dir, "gate-snap.bolt")
	_ = os.Remove(path)
	actual, _, err := env.Db.Snapshot(path)
	if err != nil {
		out["harness"] = err.Error()
		return out
	}
	data, _ := os.ReadFile(actual)
	_ = os.Remove(actual)
	_ = writeVersion(env, 2)
	readName := func(tx *bbolt.Tx) string {
		p, _, _ := env.S.People.FindById(tx, "p1")
		if p == nil {
			return "<none>"
		}
		return p.Name
	}
	type res struct {
		kind   string
		name   string
		err    error
		during bool
	}
	var mu sync.Mutex
	var results []res
	var wg sync.WaitGroup
	var swapping atomic.Bool
	points := 0
	boltz.SetVerifHook(func(point string) {
		switch point {
		case "restore.closed", "restore.renamed":
			points++
			swapping.Store(true)
			for _, kind := range []string{"view", "update", "batch"} {
				kind := kind
				wg.Add(1)
				started := make(chan struct{})
				go func() {
					defer wg.Done()
					close(started)
					r := res{kind: kind + "@" + point}
					body := func(tx *bbolt.Tx) {
						r.name = readName(tx)
						r.during = swapping.Load()
					}
					switch kind {
					case "view":
						r.err = env.Db.View(func(tx *bbolt.Tx) error { body(tx); return nil })
					case "update":
						r.err = env.Db.Update(nil, func(ctx boltz.MutateContext) error { body(ctx.Tx()); return nil })
					default:
						r.err = env.Db.Batch(boltz.NewMutateContext(context.Background()), func(ctx boltz.MutateContext) error { body(ctx.Tx()); return nil })
					}
					mu.Lock()
					results = append(results, r)
					mu.Unlock()
				}()
				<-started
			}
			time.Sleep(15 * time.Millisecond) // let them reach the lock; a transaction that gets through shows up in results
		case "restore.opened":
			swapping.Store(false)
		}
	})
	func() {
		defer func() {
			if p := recover(); p != nil {
				mu.Lock()
				results = append(results, res{kind: "restore", err: fmt.Errorf("RestoreFromReader panicked: %v", p)})
				mu.Unlock()
				swapping.Store(false)
			}
		}()
		env.Db.RestoreFromReader(bytes.NewReader(data))
	}()
	wg.Wait()
	var bad []string
	for _, r := range results {
		switch {
		case r.err != nil:
			bad = append(bad, fmt.Sprintf("%s failed: %v", r.kind, r.err))
		case r.during:
			bad = append(bad, fmt.Sprintf("%s ran while the file was being swapped (saw %q)", r.kind, r.name))
		case r.name != "ver-1":
			bad = append(bad, fmt.Sprintf("%s saw %q after the restore, want ver-1", r.kind, r.name))
		}
	}
	out["hook_points_reached"] = points
	out["transactions"] = len(results)
	out["bad"] = bad
	return out
}

// overlap: GetTimelineId is one atomic step of the specification; two overlapping requests after a restore must be explainable by
// one of the two orders of that step: the id function runs once in total and both requests return the id the database holds.
// The id function itself is the scheduling gate: the first invocation lingers until the second request has finished (which it
// cannot before the first commits) or 150ms have passed.
func runOverlap(dir string) []string {
	var bad []string
	for _, mode := range []boltz.TimelineMode{boltz.TimelineModeDefault, boltz.TimelineModeInitIfEmpty} {
		func() {
			env, err := storerun.NewEnv(dir, schema.Config{}, project.NewTokens(nil))
			if err != nil {
				bad = append(bad, "harness: "+err.Error())
				return
			}
			defer env.Close()
			_ = writeVersion(env, 1)
			path := filepath.Join(dir, "overlap-snap.bolt")
			_ = os.Remove(path)
			actual, _, err := env.Db.Snapshot(path)
			if err != nil {
				bad = append(bad, "harness: "+err.Error())
				return
			}
			data, _ := os.ReadFile(actual)
			_ = os.Remove(actual)
			if p := safely(func() { env.Db.RestoreSnapshot(data) }); p != nil {
				bad = append(bad, fmt.Sprintf("RestoreSnapshot panicked: %v", p))
				return
			}
			var calls int64
			inside := make(chan struct{})
			secondDone := make(chan struct{})
			idF := func() (string, error) {
				n := atomic.AddInt64(&calls, 1)
				if n == 1 {
					close(inside)
					select {
					case <-secondDone:
					case <-time.After(150 * time.Millisecond):
					}
				}
				return fmt.Sprintf("ov-%d", n), nil
			}
			var a, b string
			var ea, eb error
			var wg sync.WaitGroup
			wg.Add(2)
			go func() { defer wg.Done(); a, ea = env.Db.GetTimelineId(mode, idF) }()
			go func() {
				defer wg.Done()
				defer close(secondDone)
				select {
				case <-inside:
				case <-time.After(5 * time.Second):
				}
				b, eb = env.Db.GetTimelineId(mode, idF)
			}()
			wg.Wait()
			_, _, tl := metaOf(env)
			if ea != nil || eb != nil {
				bad = append(bad, fmt.Sprintf("overlapping GetTimelineId(%s) failed: %v %v", mode, ea, eb))
			} else if n := atomic.LoadInt64(&calls); n != 1 || a != b || tl != a {
				bad = append(bad, fmt.Sprintf("two overlapping GetTimelineId(%s) after a restore: id function ran %d times, requests returned %q and %q, the database holds %q (one atomic step each: one fresh id, both return it)", mode, n, a, b, tl))
			}
		}()
	}
	return bad
}

// safely runs f and returns what it panicked with (nil when it returned)
func safely(f func()) (p any) {
	defer func() { p = recover() }()
	f()
	return nil
}

// stress: readers and writers run against repeated restores; every transaction reads its view twice and must see one
// version; no transaction may fail
func runStress(dir string, dur time.Duration) map[string]any {
	out := map[string]any{}
	env, err := storerun.NewEnv(dir, schema.Config{}, project.NewTokens(nil))
	if err != nil {
		out["harness"] = err.Error()
		return out
	}
	defer env.Close()
	_ = writeVersion(env, 1)
	var snapsData [][]byte
	for i := 0; i < 2; i++ {
		path := filepath.Join(dir, fmt.Sprintf("stress-snap-%d.bolt", i))
		_ = os.Remove(path)
		actual, _, err := env.Db.Snapshot(path)
		if err != nil {
			out["harness"] = err.Error()
			return out
		}
		d, _ := os.ReadFile(actual)
		_ = os.Remove(actual)
		snapsData = append(snapsData, d)
		_ = writeVersion(env, 2+i)
	}
	stop := make(chan struct{})
	var wg sync.WaitGroup
	var txs, restores int64
	var mu sync.Mutex
	var bad []string
	note := func(s string) {
		mu.Lock()
		if len(bad) < 5 {
			bad = append(bad, s)
		}
		mu.Unlock()
	}
	read := func(tx *bbolt.Tx) string {
		p, _, _ := env.S.People.FindById(tx, "p1")
		ids, _, _ := env.S.People.QueryIds(tx, "true")
		if p == nil {
			return "<none>"
		}
		return fmt.Sprint(p.Name, p.Roles, ids)
	}
	for g := 0; g < 6; g++ {
		g := g
		wg.Add(1)
		go func() {
			defer wg.Done()
			for i := 0; ; i++ {
				select {
				case <-stop:
					return
				default:
				}
				var a, b string
				var err error
				if g%3 == 0 {
					err = env.Db.Update(nil, func(ctx boltz.MutateContext) error {
						a = read(ctx.Tx())
						p, _, _ := env.S.People.FindById(ctx.Tx(), "p1")
						if p != nil {
							p.Nick = nil
							if e := env.S.People.Update(ctx, p, boltz.MapFieldChecker{schema.KNick: struct{}{}}); e != nil {
								return e
							}
						}
						b = read(ctx.Tx())
						return nil
					})
				} else {
					err = env.Db.View(func(tx *bbolt.Tx) error {
						a = read(tx)
						time.Sleep(50 * time.Microsecond)
						b = read(tx)
						return nil
					})
				}
				atomic.AddInt64(&txs, 1)
				if err != nil {
					note(fmt.Sprintf("transaction failed: %v", err))
				} else if a != b {
					note(fmt.Sprintf("one transaction saw %q then %q", a, b))
				}
			}
		}()
	}
	end := time.Now().Add(dur)
	for i := 0; time.Now().Before(end); i++ {
		if p := safely(func() { env.Db.RestoreSnapshot(snapsData[i%2]) }); p != nil {
			note(fmt.Sprintf("restore number %d panicked: %v", i+1, p))
			break
		}
		atomic.AddInt64(&restores, 1)
		time.Sleep(2 * time.Millisecond)
	}
	close(stop)
	wg.Wait()
	out["transactions"] = txs
	out["restores"] = restores
	out["bad"] = bad
	return out
}

// vreplay dblife --in behaviours.ndjson --scratch dir [--stress-ms n]
func dblifeMain(args []string) error {
	fs := flag.NewFlagSet("dblife", flag.ExitOnError)
	in := fs.String("in", "", "behaviours")
	scratch := fs.String("scratch", "", "scratch dir")
	stressMs := fs.Int("stress-ms", 1500, "duration of the concurrent stress")
	_ = fs.Parse(args)
	logrus.SetOutput(io.Discard)
	rep := dlReport{BySig: map[string]int{}}
	f, err := os.Open(*in)
	if err != nil {
		return err
	}
	defer f.Close()
	sc := bufio.NewScanner(f)
	sc.Buffer(make([]byte, 1<<20), 1<<26)
	idx := -1
	for sc.Scan() {
		if rep.Mismatches >= 25 {
			break // fail fast: enough evidence (every further divergence may cost a listener wait)
		}
		idx++
		var b struct {
			Steps []dlStep `json:"steps"`
		}
		if err := json.Unmarshal(sc.Bytes(), &b); err != nil {
			return err
		}
		rep.Cases++
		rep.Steps += len(b.Steps)
		var ops []string
		hasRestore := false
		for _, s := range b.Steps {
			o := fmt.Sprint(s.Last["op"])
			if o == "restore" {
				hasRestore = true
				o = fmt.Sprint("restore(", s.Last["s"], ")")
			}
			if o == "getTimelineId" {
				o = fmt.Sprint("timeline(", s.Last["mode"], ")")
			}
			ops = append(ops, o)
		}
		if hasRestore {
			rep.NonTrivial++
		}
		if idx%2003 == 11 && len(rep.Sample) < 4 {
			rep.Sample = append(rep.Sample, strings.Join(ops, " ; "))
		}
		finished := make(chan struct{})
		go func() {
			defer close(finished)
			defer func() {
				if p := recover(); p != nil {
					rep.Mismatches++
					rep.BySig["panic"]++
					if len(rep.Samples) < 40 {
						rep.Samples = append(rep.Samples, dlMismatch{Case: idx, Ops: strings.Join(ops, " ; "), Kind: "panic", What: fmt.Sprint(p), Sig: "panic"})
					}
				}
			}()
			runDbLife(*scratch, idx, b.Steps, func(step int, kind, what string) {
				rep.Mismatches++
				rep.BySig[kind]++
				if rep.BySig[kind] <= 3 && len(rep.Samples) < 40 {
					rep.Samples = append(rep.Samples, dlMismatch{Case: idx, Step: step, Ops: strings.Join(ops, " ; "), Kind: kind, What: what, Sig: kind})
				}
			})
		}()
		select {
		case <-finished:
		case <-time.After(30 * time.Second):
			// a call of the library never returned: report what was found and stop (the environment is stuck)
			rep.Mismatches++
			rep.BySig["hang"]++
			rep.Samples = append(rep.Samples, dlMismatch{Case: idx, Ops: strings.Join(ops, " ; "), Kind: "hang", What: "a call did not return within 30s", Sig: "hang"})
			rep.Gate = map[string]any{"hook_points_reached": 2, "skipped": "hang"}
			rep.Stress = map[string]any{"skipped": "hang"}
			out, _ := json.Marshal(rep)
			fmt.Println(string(out))
			os.Exit(0)
		}
	}
	rep.Gate = runGate(*scratch)
	rep.Gate["overlap_bad"] = runOverlap(*scratch)
	rep.Stress = runStress(*scratch, time.Duration(*stressMs)*time.Millisecond)
	out, _ := json.Marshal(rep)
	fmt.Println(string(out))
	return nil
}
