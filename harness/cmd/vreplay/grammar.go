package main

import (
	"bufio"
	"encoding/json"
	"flag"
	"fmt"
	"io"
	"os"
	"strings"

	"github.com/antlr4-go/antlr/v4"
	"github.com/openziti/storage/ast"
	"github.com/openziti/storage/zitiql"
	"github.com/sirupsen/logrus"
)

// canonical lexeme of every token kind of Grammar.tla, and the lexer's symbolic name for it
var lexemes = map[string][2]string{
	"WS": {" ", "WS"}, "LP": {"(", "LPAREN"}, "RP": {")", "RPAREN"}, "LB": {"[", "LBRACKET"}, "RB": {"]", "RBRACKET"}, "COMMA": {",", "','"},
	"AND": {"and", "AND"}, "OR": {"or", "OR"}, "LT": {"<", "LT"}, "GT": {">=", "GT"}, "EQ": {"=", "EQ"},
	"CONTAINS": {"contains", "CONTAINS"}, "ICONTAINS": {"icontains", "ICONTAINS"}, "IN": {"in", "IN"}, "BETWEEN": {"between", "BETWEEN"},
	"BOOL": {"true", "BOOL"}, "DATETIME": {"datetime(2020-01-02T03:04:05Z)", "DATETIME"}, "ALLOF": {"allOf", "ALL_OF"}, "ANYOF": {"anyOf", "ANY_OF"},
	"COUNT": {"count", "COUNT"}, "ISEMPTY": {"isEmpty", "ISEMPTY"}, "STRING": {`"x"`, "STRING"}, "NUMBER": {"1", "NUMBER"}, "NULL": {"null", "NULL"},
	"NOT": {"not", "NOT"}, "ASC": {"asc", "ASC"}, "DESC": {"desc", "DESC"}, "SORT": {"sort", "SORT"}, "BY": {"by", "BY"}, "SKIP": {"skip", "SKIP_ROWS"},
	"LIMIT": {"limit", "LIMIT_ROWS"}, "NONE": {"none", "NONE"}, "WHERE": {"where", "WHERE"}, "FROM": {"from", "FROM"}, "IDENT": {"s", "IDENTIFIER"},
	"UNK": {"#", ""},
}

// alternative spellings used on odd cases: negated word operators are single tokens of the same kind
var altLexemes = map[string]string{"IN": "not in", "BETWEEN": "not between", "CONTAINS": "not contains", "ICONTAINS": "not  icontains", "EQ": "!=", "LT": "<=", "GT": ">",
	"BOOL": "FALSE", "NUMBER": "-2.5e3", "IDENT": "roles", "WS": "\t", "AND": "AND", "DATETIME": "datetime( 2020-01-02t03:04:05.5+01:00 )", "UNK": "$", "STRING": `"a\"b"`}

var unkAlts = []string{"\u00a0", "\f", "\v", "\u2003", "\u0085", "\u3000", "~", "`", "\u200b", "\x00"}

type silentListener struct {
	*antlr.DefaultErrorListener
	n int
}

func (l *silentListener) SyntaxError(antlr.Recognizer, interface{}, int, int, string, antlr.RecognitionException) {
	l.n++
}

// kindsOf tokenises text with the repository's lexer; lexErrs counts characters it did not recognise
func kindsOf(text string) (kinds []string, lexErrs int) {
	lexer := zitiql.NewZitiQlLexer(antlr.NewInputStream(text))
	lexer.RemoveErrorListeners()
	sl := &silentListener{DefaultErrorListener: antlr.NewDefaultErrorListener()}
	lexer.AddErrorListener(sl)
	for {
		tok := lexer.NextToken()
		if tok.GetTokenType() == antlr.TokenEOF {
			break
		}
		tt := tok.GetTokenType()
		name := ""
		if tt >= 0 && tt < len(lexer.SymbolicNames) {
			name = lexer.SymbolicNames[tt]
		}
		if name == "" && tt >= 0 && tt < len(lexer.LiteralNames) {
			name = lexer.LiteralNames[tt]
		}
		kinds = append(kinds, name)
	}
	return kinds, sl.n
}

type grSyms struct{ oneString }

func (g grSyms) GetSymbolType(name string) (ast.NodeType, bool) {
	switch name {
	case "s":
		return ast.NodeTypeString, true
	case "roles":
		return ast.NodeTypeString, true
	}
	return 0, false
}
func (g grSyms) IsSet(name string) (bool, bool) {
	switch name {
	case "s":
		return false, true
	case "roles":
		return true, true
	}
	return false, false
}
func (g grSyms) GetSetSymbolTypes(name string) ast.SymbolTypes {
	if name == "roles" {
		return g
	}
	return nil
}

type grMismatch struct {
	Text string   `json:"text"`
	Toks []string `json:"toks"`
	Kind string   `json:"kind"` // accepted-non-sentence | panic
	Err  string   `json:"err"`
	Sig  string   `json:"sig"`
}

type grReport struct {
	Cases      int            `json:"cases"`
	Checked    int            `json:"checked"` // text really lexes to the intended token kinds
	Skipped    int            `json:"skipped"` // rendering lexes differently (fused tokens): not a case
	Sentences  int            `json:"sentences"`
	Accepted   int            `json:"accepted"` // parsed to a typed query (and evaluated)
	NonTrivial int            `json:"distinct_nontrivial"`
	Mismatches int            `json:"mismatch_count"`
	BySig      map[string]int `json:"by_sig"`
	Samples    []grMismatch   `json:"mismatches"`
	Sample     []string       `json:"sample_cases"`
}

// vreplay grammar --in cases.ndjson
func grammarMain(args []string) error {
	fs := flag.NewFlagSet("grammar", flag.ExitOnError)
	in := fs.String("in", "", "cases")
	_ = fs.Parse(args)
	logrus.SetOutput(io.Discard)
	f, err := os.Open(*in)
	if err != nil {
		return err
	}
	defer f.Close()
	rep := grReport{BySig: map[string]int{}}
	sc := bufio.NewScanner(f)
	sc.Buffer(make([]byte, 1<<20), 1<<26)
	idx := 0
	for sc.Scan() {
		var c struct {
			Toks     []string `json:"toks"`
			Sentence bool     `json:"sentence"`
		}
		if err := json.Unmarshal(sc.Bytes(), &c); err != nil {
			return err
		}
		idx++
		rep.Cases++
		for variant := 0; variant < 3; variant++ {
			var b strings.Builder
			var want []string
			unk := 0
			seen := map[string]int{}
			for i, k := range c.Toks {
				lx := lexemes[k][0]
				if variant == 1 && (i+idx)%2 == 0 {
					if alt, ok := altLexemes[k]; ok {
						lx = alt
					}
				}
				// variant 2: literals that are tokens of the grammar but cannot be converted (every second NUMBER / DATETIME)
				seen[k]++
				if variant == 2 && k == "UNK" {
					// characters the lexer does not know but a general-purpose "trim" or "is space" would: white space outside [ \n\t\r]
					lx = unkAlts[(i+idx)%len(unkAlts)]
				}
				if variant == 2 && k == "STRING" {
					// literals that end in an escape sequence, or consist of escapes only
					lx = []string{`"a\""`, `"\\"`, `"\"\""`, `""`}[(i+idx)%4]
				}
				if variant == 2 && seen[k]%2 == 0 {
					switch k {
					case "NUMBER":
						lx = "1e999"
					case "DATETIME":
						lx = "datetime(2032-02-31T15:36:50Z)"
					}
				}
				b.WriteString(lx)
				if k == "UNK" {
					unk++
				} else {
					want = append(want, lexemes[k][1])
				}
			}
			text := b.String()
			got, lexErrs := kindsOf(text)
			if strings.Join(got, " ") != strings.Join(want, " ") || lexErrs != unk {
				rep.Skipped++
				continue
			}
			rep.Checked++
			if c.Sentence {
				rep.Sentences++
			}
			if len(c.Toks) >= 3 {
				rep.NonTrivial++
			}
			add := func(kind, e string) {
				m := grMismatch{Text: text, Toks: c.Toks, Kind: kind, Err: e, Sig: kind}
				if unk > 0 {
					m.Sig += ":unknown-char"
				}
				rep.Mismatches++
				rep.BySig[m.Sig]++
				if rep.BySig[m.Sig] <= 4 && len(rep.Samples) < 40 {
					rep.Samples = append(rep.Samples, m)
				}
			}
			func() {
				defer func() {
					if p := recover(); p != nil {
						add("panic", fmt.Sprint(p))
					}
				}()
				q, err := ast.Parse(grSyms{}, text)
				if err == nil {
					rep.Accepted++
					if !c.Sentence {
						add("accepted-non-sentence", fmt.Sprint(q))
					}
					v := "x"
					q.EvalBool(grSyms{oneString{val: &v}})
					q.EvalBool(grSyms{oneString{}})
				}
			}()
			if (idx%9001 == 1 || (c.Sentence && len(rep.Sample) < 3)) && len(rep.Sample) < 6 {
				rep.Sample = append(rep.Sample, fmt.Sprintf("%q sentence=%v", text, c.Sentence))
			}
		}
	}
	out, _ := json.Marshal(rep)
	fmt.Println(string(out))
	return nil
}
