package main

import (
	"bufio"
	"encoding/json"
	"flag"
	"fmt"
	"io"
	"os"
	"sort"
	"strings"

	"github.com/openziti/storage/boltz"
	"github.com/sirupsen/logrus"
	"go.etcd.io/bbolt"
	"verif/harness/internal/project"
	"verif/harness/internal/schema"
	"verif/harness/internal/storerun"
)

type igCase struct {
	Base      map[string]any   `json:"base"`
	Corr      []map[string]any `json:"corr"`
	Facts     int              `json:"facts"`
	Unfixable int              `json:"unfixable"`
	Repaired  map[string]any   `json:"repaired"`
	Corrupted map[string]any   `json:"corrupted"`
}

type igMismatch struct {
	Case int              `json:"case"`
	Corr []map[string]any `json:"corr"`
	Kind string           `json:"kind"`
	What string           `json:"what"`
	Sig  string           `json:"sig"`
}

type igReport struct {
	Cases      int            `json:"cases"`
	NonTrivial int            `json:"distinct_nontrivial"` // cases with at least one corruption
	Reports    int            `json:"reports_seen"`
	Mismatches int            `json:"mismatch_count"`
	BySig      map[string]int `json:"by_sig"`
	Samples    []igMismatch   `json:"mismatches"`
	Sample     []string       `json:"sample_cases"`
}

func typedKey(s string) []byte { return append([]byte{5}, []byte(s)...) }

func igStr(v any) string { return fmt.Sprint(v) }

// ids of the model rendered through the environment's token table (a table where one id is a proper prefix of another:
// look-ups that compare with a prefix test instead of equality then confuse the two)
var prefixIds = map[string]string{"p2": "p1x", "p3": "p1xy", "t2": "t1x"}

func buildBase(env *storerun.Env, base map[string]any) error {
	S := env.S
	igStr := func(v any) string { return env.Tok.Real(fmt.Sprint(v)) }
	return env.Db.Update(nil, func(ctx boltz.MutateContext) error {
		if tms, ok := base["tms"].([]any); ok {
			for _, t := range tms {
				if err := S.Teams.Create(ctx, &schema.Team{Id: igStr(t)}); err != nil {
					return err
				}
			}
		}
		ents, _ := base["ent"].(map[string]any)
		var ids []string
		for id, e := range ents {
			if m, ok := e.(map[string]any); ok && m["none"] == nil {
				ids = append(ids, id)
			}
		}
		sort.Strings(ids)
		mk := func(id string, withBoss bool) *schema.Person {
			m := ents[id].(map[string]any)
			p := &schema.Person{Name: igStr(m["name"])}
			p.Id = igStr(id)
			if n := igStr(m["nick"]); n != project.Nil {
				p.Nick = &n
			}
			if rs, ok := m["roles"].([]any); ok {
				for _, r := range rs {
					p.Roles = append(p.Roles, igStr(r))
				}
			}
			if b := igStr(m["boss"]); withBoss && b != project.Nil {
				p.Boss = &b
			}
			return p
		}
		for _, id := range ids {
			if err := S.People.Create(ctx, mk(id, false)); err != nil {
				return fmt.Errorf("create %s: %w", id, err)
			}
		}
		for _, id := range ids {
			if err := S.People.Update(ctx, mk(id, true), boltz.MapFieldChecker{schema.KBoss: struct{}{}}); err != nil {
				return fmt.Errorf("boss of %s: %w", id, err)
			}
		}
		if pt, ok := base["lnkPT"].(map[string]any); ok {
			for p, ts := range pt {
				for _, t := range ts.([]any) {
					if err := S.People.Links.AddLinks(ctx.Tx(), igStr(p), igStr(t)); err != nil {
						return err
					}
				}
			}
		}
		return nil
	})
}

func corrupt(env *storerun.Env, corr []map[string]any) error {
	return env.Db.Update(nil, func(ctx boltz.MutateContext) error {
		tx := ctx.Tx()
		for _, c := range corr {
			s := func(k string) string {
				if k == "c" || k == "f" {
					return fmt.Sprint(c[k])
				}
				return env.Tok.Real(fmt.Sprint(c[k]))
			}
			var err error
			switch s("c") {
			case "uDel":
				err = boltz.Path(tx, "stores", "indexes", "people", s("f")).Delete([]byte(s("v")))
			case "uSet":
				err = boltz.Path(tx, "stores", "indexes", "people", s("f")).Put([]byte(s("v")), []byte(s("id")))
			case "sDel":
				err = boltz.Path(tx, "stores", "indexes", "people", "roles", s("r")).Delete(typedKey(s("id")))
			case "sAdd":
				b := boltz.GetOrCreatePath(tx, "stores", "indexes", "people", "roles", s("r"))
				err = b.Put(typedKey(s("id")), nil)
			case "sKey":
				err = boltz.GetOrCreatePath(tx, "stores", "indexes", "people", "roles", s("r")).GetError()
			case "bDel":
				err = boltz.Path(tx, "stores", "people", s("t"), "reports").Delete(typedKey(s("id")))
			case "bAdd":
				err = boltz.GetOrCreatePath(tx, "stores", "people", s("t"), "reports").Put(typedKey(s("id")), nil)
			case "fkSet":
				err = boltz.Path(tx, "stores", "people", s("id")).Put([]byte(schema.KBoss), typedKey(s("t")))
			case "lAddP":
				err = boltz.GetOrCreatePath(tx, "stores", "people", s("p"), "teams").Put(typedKey(s("t")), nil)
			case "lDelP":
				err = boltz.Path(tx, "stores", "people", s("p"), "teams").Delete(typedKey(s("t")))
			case "lAddT":
				err = boltz.GetOrCreatePath(tx, "stores", "teams", s("t"), "members").Put(typedKey(s("p")), nil)
			case "lDelT":
				err = boltz.Path(tx, "stores", "teams", s("t"), "members").Delete(typedKey(s("p")))
			case "nameSet":
				err = boltz.Path(tx, "stores", "people", s("id")).Put([]byte("name"), typedKey(s("v")))
			default:
				err = fmt.Errorf("unknown corruption %v", c)
			}
			if err != nil {
				return fmt.Errorf("%v: %w", c, err)
			}
		}
		return nil
	})
}

type igRun struct {
	reports, fixed int
	texts          []string
	err            error
}

func runCheck(env *storerun.Env, fix bool) igRun {
	var r igRun
	r.err = env.Db.Update(nil, func(ctx boltz.MutateContext) error {
		r = runCheckIn(env, ctx, fix)
		return r.err
	})
	return r
}

// runCheckIn runs the check of every store inside the caller's transaction
func runCheckIn(env *storerun.Env, ctx boltz.MutateContext, fix bool) igRun {
	var r igRun
	for _, st := range env.S.AllStores() {
		if err := st.CheckIntegrity(ctx, fix, func(err error, fixed bool) {
			r.reports++
			if fixed {
				r.fixed++
			}
			if len(r.texts) < 6 {
				r.texts = append(r.texts, fmt.Sprintf("%v (fixed=%v)", err, fixed))
			}
		}); err != nil {
			r.err = err
			return r
		}
	}
	return r
}

// vreplay integrity --in cases.ndjson --scratch dir
func integrityMain(args []string) error {
	fs := flag.NewFlagSet("integrity", flag.ExitOnError)
	in := fs.String("in", "", "cases")
	scratch := fs.String("scratch", "", "scratch")
	bossMode := fs.String("boss", "idxNull", "wiring of people.boss: idxNull | conNoneNull")
	_ = fs.Parse(args)
	logrus.SetOutput(io.Discard)
	f, err := os.Open(*in)
	if err != nil {
		return err
	}
	defer f.Close()
	rep := igReport{BySig: map[string]int{}}
	sc := bufio.NewScanner(f)
	sc.Buffer(make([]byte, 1<<20), 1<<26)
	idx := -1
	for sc.Scan() {
		idx++
		var c igCase
		if err := json.Unmarshal(sc.Bytes(), &c); err != nil {
			return err
		}
		rep.Cases++
		if len(c.Corr) > 0 {
			rep.NonTrivial++
		}
		var kinds []string
		for _, k := range c.Corr {
			kinds = append(kinds, igStr(k["c"]))
		}
		sort.Strings(kinds)
		add := func(kind, what string) {
			m := igMismatch{Case: idx, Corr: c.Corr, Kind: kind, What: what, Sig: kind + ":" + strings.Join(kinds, "+")}
			rep.Mismatches++
			rep.BySig[m.Sig]++
			if rep.BySig[m.Sig] <= 2 && len(rep.Samples) < 60 {
				rep.Samples = append(rep.Samples, m)
			}
		}
		func() {
			defer func() {
				if p := recover(); p != nil {
					add("panic", fmt.Sprint(p))
				}
			}()
			var table map[string]string
			if idx%2 == 1 {
				table = prefixIds
			}
			env, err := storerun.NewEnv(*scratch, schema.Config{BossMode: *bossMode, TeamMode: "off", ChildExtended: idx%4 == 1}, project.NewTokens(table))
			if err != nil {
				add("harness", err.Error())
				return
			}
			defer env.Close()
			if err := buildBase(env, c.Base); err != nil {
				add("harness", "base: "+err.Error())
				return
			}
			dump := func() *project.Node { return project.DumpDB(dbOf(env)) }
			if d := project.Compare(project.ModelFacts(c.Base), project.StoreFacts(dump(), env.Tok)); len(d) > 0 {
				add("harness", fmt.Sprintf("base state differs from the model: %v", d[:1]))
				return
			}
			if err := corrupt(env, c.Corr); err != nil {
				add("harness", "corrupt: "+err.Error())
				return
			}
			if d := project.Compare(project.ModelFacts(c.Corrupted), project.StoreFacts(dump(), env.Tok)); len(d) > 0 {
				add("harness", fmt.Sprintf("corrupted state differs from the model: %v", d[:1]))
				return
			}
			// check mode
			// "unchanged" is judged on the abstract state (entities, index entries and keys, back-references, link sides):
			// an empty field bucket that opening a link cursor creates inside an entity carries no information
			beforeFacts := project.StoreFacts(dump(), env.Tok)
			chk := runCheck(env, false)
			rep.Reports += chk.reports
			if chk.err != nil {
				add("check-error", chk.err.Error())
				return
			}
			if d := project.Compare(beforeFacts, project.StoreFacts(dump(), env.Tok)); len(d) > 0 {
				add("check-mode-wrote", fmt.Sprintf("%s: before %q after %q", d[0].Key, d[0].Model, d[0].Real))
			}
			if chk.fixed > 0 {
				add("check-mode-fixed", fmt.Sprint(chk.texts))
			}
			if c.Facts == 0 && chk.reports > 0 {
				add("unsound", fmt.Sprintf("consistent database, %d reports: %v", chk.reports, chk.texts))
			}
			if chk.reports < c.Facts {
				add("incomplete", fmt.Sprintf("%d inconsistencies, %d reports: %v", c.Facts, chk.reports, chk.texts))
			}
			// fix mode; on every third case the re-check runs in the transaction that repaired (what a transaction wrote is
			// what it reads: "an immediate re-check is clean" does not wait for a commit)
			var fx, reSame igRun
			sameTx := idx%3 == 0
			if sameTx {
				_ = env.Db.Update(nil, func(ctx boltz.MutateContext) error {
					fx = runCheckIn(env, ctx, true)
					if fx.err == nil {
						reSame = runCheckIn(env, ctx, false)
					}
					return fx.err
				})
				if fx.err == nil && reSame.err != nil {
					add("recheck-error", reSame.err.Error())
					return
				}
				if fx.err == nil && ((reSame.reports == 0) != (c.Unfixable == 0) || reSame.reports < c.Unfixable) {
					add("not-convergent", fmt.Sprintf("re-check after fix, in the same transaction: %d reports, %d unfixable conflicts remain: %v", reSame.reports, c.Unfixable, reSame.texts))
				}
			} else {
				fx = runCheck(env, true)
			}
			if fx.err != nil {
				add("fix-error", fx.err.Error())
				return
			}
			if fx.reports < c.Facts {
				add("incomplete-fix", fmt.Sprintf("%d inconsistencies, %d reports in fix mode", c.Facts, fx.reports))
			}
			if d := project.Compare(project.ModelFacts(c.Repaired), project.StoreFacts(dump(), env.Tok)); len(d) > 0 {
				var ks []string
				for _, x := range d {
					ks = append(ks, fmt.Sprintf("%s: want %q got %q", x.Key, x.Model, x.Real))
				}
				add("not-repaired", strings.Join(ks[:min(4, len(ks))], "; "))
				return
			}
			re := runCheck(env, false)
			if re.err != nil {
				add("recheck-error", re.err.Error())
				return
			}
			if (re.reports == 0) != (c.Unfixable == 0) || re.reports < c.Unfixable {
				add("not-convergent", fmt.Sprintf("re-check after fix: %d reports, %d unfixable conflicts remain: %v", re.reports, c.Unfixable, re.texts))
			}
		}()
		if idx%997 == 5 && len(rep.Sample) < 5 {
			rep.Sample = append(rep.Sample, fmt.Sprintf("corruptions %v -> %d facts, %d unfixable", c.Corr, c.Facts, c.Unfixable))
		}
	}
	out, _ := json.Marshal(rep)
	fmt.Println(string(out))
	return nil
}

func dbOf(env *storerun.Env) *bbolt.DB {
	var out *bbolt.DB
	_ = env.Db.View(func(tx *bbolt.Tx) error { out = tx.DB(); return nil })
	return out
}
