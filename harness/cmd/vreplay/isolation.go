package main

import (
	"encoding/json"
	"errors"
	"flag"
	"fmt"
	"io"
	"os"
	"path/filepath"
	"runtime"
	"strconv"
	"strings"
	"sync"
	"sync/atomic"
	"time"

	"github.com/openziti/storage/ast"
	"github.com/openziti/storage/boltz"
	"github.com/openziti/storage/zitiql"
	"github.com/sirupsen/logrus"
	"go.etcd.io/bbolt"
	"verif/harness/internal/project"
	"verif/harness/internal/schema"
	"verif/harness/internal/storerun"
)

func verOf(s string) int {
	if !strings.HasPrefix(s, "ver-") {
		return 0
	}
	n, err := strconv.Atoi(strings.TrimPrefix(s, "ver-"))
	if err != nil {
		return 0
	}
	return n
}

// one writer transaction = several store calls; only the committed result is a function of the version
func isoWrite(env *storerun.Env, v int, abort bool) error {
	S := env.S
	errAbort := errors.New("abort")
	err := env.Db.Update(nil, func(ctx boltz.MutateContext) error {
		tx := ctx.Tx()
		name := fmt.Sprintf("ver-%d", v)
		if !S.Teams.IsEntityPresent(tx, "t1") {
			if err := S.Teams.Create(ctx, &schema.Team{Id: "t1"}); err != nil {
				return err
			}
		}
		p := &schema.Person{Name: name, Roles: []string{name}}
		p.Id = "p1"
		p.Labels = map[string]interface{}{"a": map[string]interface{}{"v": "A"}, "b": map[string]interface{}{"v": "B"}}
		if S.People.IsEntityPresent(tx, "p1") {
			// two calls: first the name, then the roles -- in between the entity and the set index belong to different versions
			if err := S.People.Update(ctx, p, boltz.MapFieldChecker{"name": struct{}{}}); err != nil {
				return err
			}
			runtime.Gosched()
			if err := S.People.Update(ctx, p, boltz.MapFieldChecker{"roles": struct{}{}}); err != nil {
				return err
			}
		} else if err := S.People.Create(ctx, p); err != nil {
			return err
		}
		runtime.Gosched()
		if v%2 == 1 {
			if !S.People.IsEntityPresent(tx, "p2") {
				bossId := "p1"
				q := &schema.Person{Name: "odd", Boss: &bossId}
				q.Id = "p2"
				if err := S.People.Create(ctx, q); err != nil {
					return err
				}
			}
			if err := S.People.Links.AddLinks(tx, "p2", "t1"); err != nil {
				return err
			}
		} else if S.People.IsEntityPresent(tx, "p2") {
			if err := S.People.DeleteById(ctx, "p2"); err != nil {
				return err
			}
		}
		if abort {
			return errAbort
		}
		return nil
	})
	if abort && errors.Is(err, errAbort) {
		return nil
	}
	return err
}

// isoSnapshotVersion copies the database inside tx (SnapshotInTx) and decodes the version the copy holds (0 = none, or no copy)
func isoSnapshotVersion(env *storerun.Env, tx *bbolt.Tx, path string) int {
	_ = os.Remove(path)
	defer os.Remove(path)
	if _, _, err := env.Db.SnapshotInTx(tx, path); err != nil {
		return 0
	}
	cp, err := bbolt.Open(path, 0600, &bbolt.Options{ReadOnly: true, Timeout: time.Second})
	if err != nil {
		return 0
	}
	defer cp.Close()
	v := 0
	_ = cp.View(func(ctx *bbolt.Tx) error {
		if b := boltz.Path(ctx, "stores", "people", "p1"); b != nil {
			if name := b.GetString("name"); name != nil {
				v = verOf(*name)
			}
		}
		return nil
	})
	return v
}

// observations of one read transaction, each decoded to the version it belongs to (0 = belongs to none)
func isoObserve(env *storerun.Env, tx *bbolt.Tx) []int {
	S := env.S
	var obs []int
	p, found, _ := S.People.FindById(tx, "p1")
	if !found || p == nil {
		return []int{0}
	}
	v := verOf(p.Name)
	obs = append(obs, v)
	runtime.Gosched()
	// the set index
	keys := 0
	kv := 0
	S.People.IdxRoles.ReadKeys(tx, func(k []byte) { keys++; kv = verOf(string(k)) })
	if keys != 1 {
		kv = 0
	}
	obs = append(obs, kv)
	// the roles stored in the entity
	if len(p.Roles) == 1 {
		obs = append(obs, verOf(p.Roles[0]))
	} else {
		obs = append(obs, 0)
	}
	// the unique index
	if id := S.People.IdxName.Read(tx, []byte(p.Name)); string(id) == "p1" {
		obs = append(obs, v)
	} else {
		obs = append(obs, 0)
	}
	runtime.Gosched()
	// a parsed query through the scanner
	ids, n, err := S.People.QueryIds(tx, fmt.Sprintf(`name = "%s" and anyOf(roles) = "%s"`, p.Name, p.Name))
	if err == nil && n == 1 && len(ids) == 1 && ids[0] == "p1" {
		obs = append(obs, v)
	} else {
		obs = append(obs, 0)
	}
	// the odd-version entity and its link, both sides
	_, odd, _ := S.People.FindById(tx, "p2")
	linked := S.People.Links.IsLinked(tx, []byte("p2"), []byte("t1"))
	back := S.Teams.Links.GetLinks(tx, "t1")
	// dotted set symbols (composite paths resolved per query): who has a report named "odd", who is in a team that has members
	viaBoss, _, err1 := S.People.QueryIds(tx, `anyOf(reports.name) = "odd"`)
	viaTeam, _, err2 := S.People.QueryIds(tx, `anyOf(teams.members) = "p2"`)
	dotted := err1 == nil && err2 == nil && (len(viaBoss) == 1 && viaBoss[0] == "p1") == odd && (len(viaTeam) == 1 && viaTeam[0] == "p2") == odd
	// symbols the application computes (external symbols): every evaluation has its own result
	first, _, err3 := S.People.QueryIds(tx, `isFirst = true and idAgain = "p1"`)
	notFirst, _, err4 := S.People.QueryIds(tx, `isFirst = false`)
	external := err3 == nil && err4 == nil && len(first) == 1 && first[0] == "p1" && (len(notFirst) == 1 && notFirst[0] == "p2") == odd && (len(notFirst) == 0) == !odd
	consistent := odd == (v%2 == 1) && linked == odd && (len(back) == 1) == odd && dotted && external
	if consistent {
		obs = append(obs, v)
	} else {
		obs = append(obs, 0)
	}
	return obs
}

// vreplay isolation --out trace.ndjson --scratch dir --ms 1500 --readers 8
func isolationMain(args []string) error {
	fs := flag.NewFlagSet("isolation", flag.ExitOnError)
	out := fs.String("out", "", "trace file (ndjson)")
	scratch := fs.String("scratch", "", "scratch dir")
	ms := fs.Int("ms", 1500, "duration")
	readers := fs.Int("readers", 8, "reader goroutines")
	_ = fs.Parse(args)
	logrus.SetOutput(io.Discard)
	env, err := storerun.NewEnv(*scratch, schema.Config{BossMode: "idxNull"}, project.NewTokens(nil))
	if err != nil {
		return err
	}
	defer env.Close()
	if err := isoWrite(env, 1, false); err != nil {
		return err
	}
	var committed int64 = 1
	var inTxSnaps int64
	stop := make(chan struct{})
	var wg sync.WaitGroup
	var mu sync.Mutex
	f, err := os.Create(*out)
	if err != nil {
		return err
	}
	defer f.Close()
	lines := 0
	var failures []string
	// readers
	for r := 0; r < *readers; r++ {
		r := r
		wg.Add(1)
		go func() {
			defer wg.Done()
			for round := 0; ; round++ {
				select {
				case <-stop:
					return
				default:
				}
				lo := atomic.LoadInt64(&committed)
				var obs []int
				err := env.Db.View(func(tx *bbolt.Tx) (err error) {
					defer func() {
						if p := recover(); p != nil {
							err = fmt.Errorf("panic inside a read transaction: %v", p)
						}
					}()
					obs = isoObserve(env, tx)
					if round%150 == 7+r {
						// a copy of the database taken inside this read transaction is one more observation of it: the file holds
						// the state the transaction sees, whatever has been committed since it began
						runtime.Gosched()
						atomic.AddInt64(&inTxSnaps, 1)
						obs = append(obs, isoSnapshotVersion(env, tx, filepath.Join(*scratch, fmt.Sprintf("intx-%d.bolt", r))))
					}
					return nil
				})
				hi := atomic.LoadInt64(&committed) + 1
				// what a read transaction loaded is the caller's: it stays what it was after the transaction ended and the writer went on
				if err == nil && round%40 == 3 && len(obs) > 0 && obs[0] > 0 {
					var kept *schema.Person
					_ = env.Db.View(func(tx *bbolt.Tx) error {
						kept, _, _ = env.S.People.FindById(tx, "p1")
						return nil
					})
					if kept != nil {
						was := verOf(kept.Name)
						name := strings.Clone(kept.Name)
						for w := atomic.LoadInt64(&committed); atomic.LoadInt64(&committed) < w+4; {
							select {
							case <-stop:
								w = -100
							default:
								runtime.Gosched()
							}
						}
						if kept.Name != name || verOf(kept.Name) != was || len(kept.Roles) != 1 || verOf(kept.Roles[0]) != was {
							err = fmt.Errorf("an entity loaded in a read transaction changed after the transaction ended: name %q was %q, roles %q", kept.Name, name, kept.Roles)
						}
					}
				}
				mu.Lock()
				if err != nil {
					failures = append(failures, err.Error())
				} else if lines < 60000 {
					b, _ := json.Marshal(map[string]any{"obs": obs, "lo": lo, "hi": hi})
					f.Write(append(b, '\n'))
					lines++
				}
				mu.Unlock()
			}
		}()
	}
	// helpers that must be callable from many goroutines without data races
	nf := boltz.NewNotFoundError("people", "id", "x")
	re := boltz.NewReferenceByIdError("people", "a", "people", "b", "boss")
	du := &boltz.UniqueIndexDuplicateError{Field: "name", Value: "v", EntityType: "people"}
	other := errors.New("other")
	var helperCalls int64
	for h := 0; h < 4; h++ {
		h := h
		wg.Add(1)
		go func() {
			defer wg.Done()
			defer func() {
				if p := recover(); p != nil {
					mu.Lock()
					failures = append(failures, fmt.Sprintf("panic in a goroutine that only parses, resolves symbols and classifies errors: %v", p))
					mu.Unlock()
				}
			}()
			for i := 0; ; i++ {
				select {
				case <-stop:
					return
				default:
				}
				type tc struct {
					e       error
					a, b, c bool
				}
				cases := []tc{{nf, true, false, false}, {re, false, true, false}, {du, false, false, true}, {other, false, false, false},
					{fmt.Errorf("wrapped: %w", re), false, true, false}, {fmt.Errorf("wrapped: %w", du), false, false, true}, {fmt.Errorf("wrapped: %w", nf), true, false, false}}
				t := cases[(i+h)%len(cases)]
				if a, b, c := boltz.IsErrNotFoundErr(t.e), boltz.IsReferenceExistsError(t.e), boltz.IsUniqueIndexDuplicateError(t.e); a != t.a || b != t.b || c != t.c {
					mu.Lock()
					failures = append(failures, fmt.Sprintf("error classification of %v: notFound=%v refExists=%v dup=%v", t.e, a, b, c))
					mu.Unlock()
				}
				func() {
					defer func() {
						if p := recover(); p != nil {
							mu.Lock()
							failures = append(failures, fmt.Sprintf("panic in concurrent Parse: %v", p))
							mu.Unlock()
						}
					}()
					text := fmt.Sprintf(`name = "n%d" and anyOf(roles) = "r%d" sort by name limit %d`, i%7, h, i%5+1)
					q, err := ast.Parse(env.S.People, text)
					if err != nil {
						mu.Lock()
						failures = append(failures, "parse of a valid query failed: "+err.Error())
						mu.Unlock()
					} else if got := fmt.Sprint(q); !strings.Contains(got, fmt.Sprintf("n%d", i%7)) || !strings.Contains(got, fmt.Sprintf("r%d", h)) {
						mu.Lock()
						failures = append(failures, fmt.Sprintf("concurrent Parse(%q) produced %q", text, got))
						mu.Unlock()
					}
				}()
				// the empty filter is a query like any other: every Parse gives the caller a value of its own -- one caller paging
				// it must not change what another caller's unpaged query returns
				if eq, err := func() (q ast.Query, err error) {
					defer func() {
						if p := recover(); p != nil {
							err = fmt.Errorf("panic: %v", p)
						}
					}()
					return ast.Parse(env.S.People, "")
				}(); err == nil {
					pager := (i+h)%2 == 0
					if pager {
						eq.SetSkip(0)
						eq.SetLimit(1)
					}
					_ = env.Db.View(func(tx *bbolt.Tx) (e error) {
						defer func() { _ = recover() }()
						ids, n, err := env.S.People.QueryIdsC(tx, eq)
						if err == nil && !pager && int64(len(ids)) != n {
							mu.Lock()
							failures = append(failures, fmt.Sprintf("an unpaged query with the empty filter returned %d of %d rows", len(ids), n))
							mu.Unlock()
						}
						if err == nil && pager && len(ids) > 1 {
							mu.Lock()
							failures = append(failures, fmt.Sprintf("a query limited to 1 row returned %d", len(ids)))
							mu.Unlock()
						}
						return nil
					})
				}
				// elements of a nested map, a different one per goroutine: the symbols are resolved per query and share nothing
				lq := []string{`labels.a.v = "A"`, `labels.b.v = "B"`}[h%2]
				_ = env.Db.View(func(tx *bbolt.Tx) (e error) {
					defer func() {
						if p := recover(); p != nil {
							mu.Lock()
							failures = append(failures, fmt.Sprintf("panic in a concurrent query (%s): %v", lq, p))
							mu.Unlock()
						}
					}()
					ids, _, err := env.S.People.QueryIds(tx, lq)
					if err != nil || len(ids) != 1 || ids[0] != "p1" {
						mu.Lock()
						failures = append(failures, fmt.Sprintf("%s returned %v (%v), want [p1]", lq, ids, err))
						mu.Unlock()
					}
					return nil
				})
				if h == 3 && i%40 == 0 {
					// a parse with diagnostics switched on is a parse like any other: whatever it turns on is its own
					func() {
						defer func() {
							if p := recover(); p != nil {
								mu.Lock()
								failures = append(failures, fmt.Sprintf("panic in a concurrent debug parse: %v", p))
								mu.Unlock()
							}
						}()
						// (with diagnostics on, reports of ambiguity come back as parse errors: what it returns is not judged here)
						_ = zitiql.ParseWithDebug(fmt.Sprintf(`name = "n%d" and (age > 3 or not (flag = true)) sort by name skip 1 limit %d`, i%7, i%5+1), &zitiql.BaseZitiQlListener{}, true)
					}()
				}
				_ = env.S.People.GetSymbol([]string{"name", "roles", "boss.name", "reports.name", "tags.x"}[i%5])
				_ = env.S.Staff.GetSymbol("grade")
				atomic.AddInt64(&helperCalls, 1)
			}
		}()
	}
	// the writer
	end := time.Now().Add(time.Duration(*ms) * time.Millisecond)
	v := 1
	aborted := 0
	for time.Now().Before(end) {
		v++
		if v%5 == 0 {
			// a transaction that does all the work and is rolled back: must never be seen
			if err := isoWrite(env, v+1000, true); err != nil {
				failures = append(failures, "writer(abort): "+err.Error())
			}
			aborted++
		}
		if err := isoWrite(env, v, false); err != nil {
			mu.Lock()
			failures = append(failures, "writer: "+err.Error())
			mu.Unlock()
			break
		}
		atomic.StoreInt64(&committed, int64(v))
	}
	close(stop)
	wg.Wait()
	rep := map[string]any{"read_transactions": lines, "versions": v, "aborted_writer_transactions": aborted, "helper_calls": helperCalls, "snapshots_in_read_tx": inTxSnaps, "failures": failures}
	b, _ := json.Marshal(rep)
	fmt.Println(string(b))
	return nil
}
