package main

import (
	"bufio"
	"encoding/json"
	"flag"
	"fmt"
	"io"
	"os"
	"strings"
	"time"

	"github.com/openziti/storage/ast"
	"github.com/openziti/storage/zitiql"
	"github.com/sirupsen/logrus"
)

// alphabet of Literal.tla
var litAlphabet = []string{"a", "n", "t", "\\", "\"", "\n", "\t", "\r", "\f", " ", "é", "r", "f", "o"}

func litStr(units []any) string {
	var b strings.Builder
	for _, u := range units {
		b.WriteString(litAlphabet[int(u.(float64))-1])
	}
	return b.String()
}

// oneString is an ast.Symbols with a single string symbol "s"
type oneString struct{ val *string }

func (o oneString) GetSymbolType(name string) (ast.NodeType, bool) {
	if name == "s" {
		return ast.NodeTypeString, true
	}
	return 0, false
}
func (o oneString) GetSetSymbolTypes(string) ast.SymbolTypes { return nil }
func (o oneString) IsSet(name string) (bool, bool)           { return false, name == "s" }
func (o oneString) EvalBool(string) *bool                    { return nil }
func (o oneString) EvalString(string) *string                { return o.val }
func (o oneString) EvalInt64(string) *int64                  { return nil }
func (o oneString) EvalFloat64(string) *float64              { return nil }
func (o oneString) EvalDatetime(string) *time.Time           { return nil }
func (o oneString) IsNil(string) bool                        { return o.val == nil }
func (o oneString) OpenSetCursor(string) ast.SetCursor       { return ast.NewEmptyCursor() }
func (o oneString) OpenSetCursorForQuery(string, ast.Query) ast.SetCursor {
	return ast.NewEmptyCursor()
}

type litMismatch struct {
	Body  string `json:"body"`
	Want  string `json:"want"`
	Got   string `json:"got"`
	Where string `json:"where"`
	Sig   string `json:"sig"`
}

type litReport struct {
	Cases      int            `json:"cases"`
	Evals      int            `json:"evaluations"`
	NonTrivial int            `json:"distinct_nontrivial"` // literal bodies containing at least one escape
	Mismatches int            `json:"mismatch_count"`
	BySig      map[string]int `json:"by_sig"`
	Samples    []litMismatch  `json:"mismatches"`
	Sample     []string       `json:"sample_cases"`
}

// vreplay literal --in cases.ndjson [--values values.ndjson]
//
//	cases: {"body": units, "value": units} -- the literal "body" must denote exactly value
func literalMain(args []string) error {
	fs := flag.NewFlagSet("literal", flag.ExitOnError)
	in := fs.String("in", "", "cases")
	_ = fs.Parse(args)
	logrus.SetOutput(io.Discard)
	f, err := os.Open(*in)
	if err != nil {
		return err
	}
	defer f.Close()
	type cs struct {
		Body  []any `json:"body"`
		Value []any `json:"value"`
		Word  string
	}
	var cases []cs
	sc := bufio.NewScanner(f)
	sc.Buffer(make([]byte, 1<<20), 1<<26)
	for sc.Scan() {
		var c cs
		if err := json.Unmarshal(sc.Bytes(), &c); err != nil {
			return err
		}
		cases = append(cases, c)
	}
	// literals whose value spells a word of the language (no escapes: body = value); TLC's enumeration is over a 14-character
	// alphabet and up to 4-6 characters, these are longer and use other letters
	for _, w := range []string{"null", "NULL", "true", "false", "none", "and", "or", "not", "in", "between", "contains", "icontains", "sort by", "limit",
		"skip", "asc", "desc", "from", "where", "isEmpty", "count", "anyOf", "allOf", "datetime(2020-01-02T03:04:05Z)", "1", "1.5", "-1", "s", "s = s"} {
		cases = append(cases, cs{Word: w})
	}
	rep := litReport{BySig: map[string]int{}}
	add := func(body, want, got, where string) {
		m := litMismatch{Body: body, Want: want, Got: got, Where: where, Sig: where}
		rep.Mismatches++
		rep.BySig[where]++
		if rep.BySig[where] <= 3 && len(rep.Samples) < 40 {
			rep.Samples = append(rep.Samples, m)
		}
	}
	// candidate field values for the end-to-end part: the denoted value, near misses of it and a fixed pool
	pool := []string{"", "a", "n", "\\", "\"", "\n", "\\n", "\\\\", "a\\", "\\a", "\"\"", "\t", "\\t", "an", "é"}
	for i, c := range cases {
		body, want := litStr(c.Body), litStr(c.Value)
		if c.Word != "" {
			body, want = c.Word, c.Word
		}
		text := `"` + body + `"`
		rep.Cases++
		if strings.Contains(body, `\`) {
			rep.NonTrivial++
		}
		if i%(len(cases)/3+1) == 0 {
			rep.Sample = append(rep.Sample, fmt.Sprintf("%q denotes %q", text, want))
		}
		func() {
			defer func() {
				if p := recover(); p != nil {
					add(text, want, fmt.Sprint("panic: ", p), "panic")
				}
			}()
			if got := zitiql.ParseZqlString(text); got != want {
				add(text, want, got, "ParseZqlString")
			}
			rep.Evals++
			// in every operand position: =, !=, in, not in, contains
			vals := append([]string{want, want + "a", "a" + want, "q1"}, pool...)
			for _, form := range []string{"s = %s", "s != %s", "s in [%s]", "s not in [%s, \"zzz\"]", "s contains %s", "s not contains %s",
				"s in [\"q1\", \"q2\"] or s in [%s, \"q3\"]"} {
				q, err := ast.Parse(oneString{}, fmt.Sprintf(form, text))
				if err != nil {
					add(text, want, err.Error(), "parse:"+form)
					continue
				}
				for _, v := range vals {
					v := v
					got := q.EvalBool(oneString{val: &v})
					var exp bool
					switch form {
					case "s = %s", "s in [%s]":
						exp = v == want
					case "s != %s":
						exp = v != want
					case "s not in [%s, \"zzz\"]":
						exp = v != want && v != "zzz"
					case "s not contains %s":
						exp = !strings.Contains(v, want)
					case "s in [\"q1\", \"q2\"] or s in [%s, \"q3\"]":
						exp = v == "q1" || v == "q2" || v == "q3" || v == want
					default:
						exp = strings.Contains(v, want)
					}
					rep.Evals++
					if got != exp {
						add(text, fmt.Sprintf("%v on field %q", exp, v), fmt.Sprint(got), "eval:"+form)
					}
				}
			}
		}()
	}
	out, _ := json.Marshal(rep)
	fmt.Println(string(out))
	return nil
}
