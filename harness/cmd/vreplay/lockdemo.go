package main

import (
	"encoding/json"
	"flag"
	"fmt"
	"io"
	"os"
	"path/filepath"
	"time"

	"github.com/sirupsen/logrus"
	"go.etcd.io/bbolt"
	"verif/harness/internal/project"
	"verif/harness/internal/schema"
	"verif/harness/internal/storerun"
)

// vreplay lockdemo --scratch dir
// DbLife.tla, TxNested: a transaction that re-enters the reload lock (SnapshotInTx inside Db.View, as Db.Snapshot and the migration
// manager do) while a restore waits for that lock.  The schedule is forced: the restore is started from inside the transaction and
// given time to reach Lock().  Reports whether the inner call returned.
func lockDemoMain(args []string) error {
	fs := flag.NewFlagSet("lockdemo", flag.ExitOnError)
	scratch := fs.String("scratch", "", "scratch dir")
	_ = fs.Parse(args)
	logrus.SetOutput(io.Discard)
	env, err := storerun.NewEnv(*scratch, schema.Config{}, project.NewTokens(nil))
	if err != nil {
		return err
	}
	_ = writeVersion(env, 1)
	path := filepath.Join(*scratch, "lockdemo-snap.bolt")
	_ = os.Remove(path)
	actual, _, err := env.Db.Snapshot(path)
	if err != nil {
		return err
	}
	data, _ := os.ReadFile(actual)
	_ = os.Remove(actual)
	done := make(chan string, 1)
	go func() {
		err := env.Db.View(func(tx *bbolt.Tx) error {
			started := make(chan struct{})
			go func() {
				close(started)
				env.Db.RestoreSnapshot(data) // waits for the transaction that started it
			}()
			<-started
			time.Sleep(150 * time.Millisecond)
			p2 := filepath.Join(*scratch, "lockdemo-inner.bolt")
			_ = os.Remove(p2)
			a, _, err := env.Db.SnapshotInTx(tx, p2)
			_ = os.Remove(a)
			return err
		})
		done <- fmt.Sprint(err)
	}()
	out := map[string]any{}
	select {
	case r := <-done:
		out["deadlock"], out["result"] = false, r
	case <-time.After(3 * time.Second):
		out["deadlock"] = true
		out["what"] = "SnapshotInTx inside Db.View did not return within 3s while RestoreSnapshot waits for the reload lock: the transaction holds the lock shared, the restore waits for it, the inner RLock queues behind the restore"
	}
	b, _ := json.Marshal(out)
	fmt.Println(string(b))
	os.Exit(0) // (the blocked goroutines cannot be released)
	return nil
}
