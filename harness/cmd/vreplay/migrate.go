package main

import (
	"bufio"
	"encoding/json"
	"errors"
	"flag"
	"fmt"
	"io"
	"os"
	"path/filepath"
	"strings"

	"github.com/openziti/storage/boltz"
	"github.com/sirupsen/logrus"
	"go.etcd.io/bbolt"
)

// replay of Migration.tla: every behaviour of the migration manager model on a real database

type migStep struct {
	Last  map[string]any   `json:"last"`
	Entry map[string]int   `json:"entry"`
	Data  map[string][]int `json:"data"`
	Snaps int              `json:"snaps"`
}

const (
	migNoEntry = 99
	migFail    = 98
	migRoot    = "root"
)

type migReport struct {
	Cases      int            `json:"cases"`
	Steps      int            `json:"steps"`
	NonTrivial int            `json:"distinct_nontrivial"` // behaviours with a migration that ran at least one step
	Mismatches int            `json:"mismatch_count"`
	BySig      map[string]int `json:"by_sig"`
	Samples    []dlMismatch   `json:"mismatches"`
	Sample     []string       `json:"sample_cases"`
}

func migState(db boltz.Db, comps []string) (entry map[string]int, data map[string][]int) {
	entry, data = map[string]int{}, map[string][]int{}
	_ = db.View(func(tx *bbolt.Tx) error {
		root := tx.Bucket([]byte(migRoot))
		for _, c := range comps {
			entry[c] = migNoEntry
			data[c] = []int{}
			if root == nil {
				continue
			}
			if vb := boltz.Path(tx, migRoot, "versions"); vb != nil {
				if v := vb.GetInt64(c); v != nil {
					entry[c] = int(*v)
				}
			}
			if db := boltz.Path(tx, migRoot, "migdata", c); db != nil {
				cur := db.Cursor()
				for k, v := cur.First(); k != nil; k, v = cur.Next() {
					n := 0
					fmt.Sscan(string(v), &n)
					data[c] = append(data[c], n)
				}
			}
		}
		return nil
	})
	return
}

func runMigration(dir string, steps []migStep, add func(step int, kind, what string)) {
	path := filepath.Join(dir, "mig.bolt")
	_ = os.Remove(path)
	db, err := boltz.Open(path, migRoot)
	if err != nil {
		add(-1, "harness", err.Error())
		return
	}
	defer func() {
		_ = db.Close()
		_ = os.Remove(path)
	}()
	if err = db.Update(nil, func(ctx boltz.MutateContext) error {
		_, err := ctx.Tx().CreateBucketIfNotExists([]byte(migRoot))
		return err
	}); err != nil {
		add(-1, "harness", err.Error())
		return
	}
	mgr := boltz.NewMigratorManager(db)
	comps := []string{}
	if len(steps) > 0 {
		for c := range steps[0].Entry {
			comps = append(comps, c)
		}
	}
	snapshots := func() []string {
		m, _ := filepath.Glob(path + "-*")
		return m
	}
	for si, st := range steps {
		c := fmt.Sprint(st.Last["c"])
		for _, f := range snapshots() {
			_ = os.Remove(f)
		}
		switch fmt.Sprint(st.Last["op"]) {
		case "getVersion":
			got, err := mgr.GetComponentVersion(c)
			if want := int(st.Last["ret"].(float64)); err != nil || got != want {
				add(si, "version", fmt.Sprintf("GetComponentVersion(%s) = %d (%v), want %d", c, got, err, want))
			}
		case "migrate":
			target := int(st.Last["target"].(float64))
			var plan []int
			for _, x := range st.Last["plan"].([]any) {
				plan = append(plan, int(x.(float64)))
			}
			var ran []int
			seq := 0
			err := mgr.Migrate(c, target, func(step *boltz.MigrationStep) int {
				v := step.CurrentVersion
				ran = append(ran, v)
				if len(ran) > 50 {
					step.SetError(errors.New("harness: runaway migration"))
					return v
				}
				// what a migration step does: it writes data inside the manager's transaction
				b := boltz.GetOrCreatePath(step.Ctx.Tx(), migRoot, "migdata", c)
				k, _ := b.NextSequence()
				seq++
				if e := b.Put([]byte(fmt.Sprintf("%08d", k)), []byte(fmt.Sprint(v))); e != nil {
					step.SetError(e)
					return v
				}
				if v < 0 || v >= len(plan) || plan[v] == migFail {
					step.SetError(errors.New("step failed"))
					return v
				}
				return plan[v]
			})
			wantOk := st.Last["ok"] == true
			var wantRan []int
			for _, x := range st.Last["ran"].([]any) {
				wantRan = append(wantRan, int(x.(float64)))
			}
			if (err == nil) != wantOk {
				add(si, "migrate-result", fmt.Sprintf("Migrate(%s, %d, plan %v) returned %v, the model says ok=%v", c, target, plan, err, wantOk))
				return
			}
			if fmt.Sprint(ran) != fmt.Sprint(wantRan) {
				add(si, "migrate-steps", fmt.Sprintf("Migrate(%s, %d, plan %v): steps were handed versions %v, model %v", c, target, plan, ran, wantRan))
				return
			}
			wantSnap := st.Last["snapshot"] == true
			if n := len(snapshots()); (n > 0) != wantSnap {
				add(si, "migrate-snapshot", fmt.Sprintf("Migrate(%s, %d): %d snapshot files written, model says snapshot=%v", c, target, n, wantSnap))
			}
		}
		entry, data := migState(db, comps)
		for _, cc := range comps {
			if entry[cc] != st.Entry[cc] {
				add(si, "entry", fmt.Sprintf("after %v: recorded version of %s is %d, model %d (99 = no entry)", st.Last, cc, entry[cc], st.Entry[cc]))
				return
			}
			if fmt.Sprint(data[cc]) != fmt.Sprint(append([]int{}, st.Data[cc]...)) {
				add(si, "data", fmt.Sprintf("after %v: data written by the steps of %s is %v, model %v", st.Last, cc, data[cc], st.Data[cc]))
				return
			}
		}
	}
	for _, f := range snapshots() {
		_ = os.Remove(f)
	}
}

// vreplay migrate --in behaviours.ndjson --scratch dir
func migrateMain(args []string) error {
	fs := flag.NewFlagSet("migrate", flag.ExitOnError)
	in := fs.String("in", "", "behaviours")
	scratch := fs.String("scratch", "", "scratch dir")
	_ = fs.Parse(args)
	logrus.SetOutput(io.Discard)
	rep := migReport{BySig: map[string]int{}}
	f, err := os.Open(*in)
	if err != nil {
		return err
	}
	defer f.Close()
	sc := bufio.NewScanner(f)
	sc.Buffer(make([]byte, 1<<20), 1<<26)
	idx := -1
	for sc.Scan() {
		idx++
		var b struct {
			Steps []migStep `json:"steps"`
		}
		if err := json.Unmarshal(sc.Bytes(), &b); err != nil {
			return err
		}
		rep.Cases++
		rep.Steps += len(b.Steps)
		var ops []string
		nontrivial := false
		for _, s := range b.Steps {
			if s.Last["op"] == "migrate" {
				ops = append(ops, fmt.Sprintf("migrate(%v,%v,%v)", s.Last["c"], s.Last["target"], s.Last["plan"]))
				if r, _ := s.Last["ran"].([]any); len(r) > 0 {
					nontrivial = true
				}
			} else {
				ops = append(ops, fmt.Sprintf("getVersion(%v)", s.Last["c"]))
			}
		}
		if nontrivial {
			rep.NonTrivial++
		}
		if idx%997 == 3 && len(rep.Sample) < 4 {
			rep.Sample = append(rep.Sample, strings.Join(ops, " ; "))
		}
		func() {
			defer func() {
				if p := recover(); p != nil {
					rep.Mismatches++
					rep.BySig["panic"]++
					rep.Samples = append(rep.Samples, dlMismatch{Case: idx, Ops: strings.Join(ops, " ; "), Kind: "panic", What: fmt.Sprint(p), Sig: "panic"})
				}
			}()
			runMigration(*scratch, b.Steps, func(step int, kind, what string) {
				rep.Mismatches++
				rep.BySig[kind]++
				if rep.BySig[kind] <= 3 && len(rep.Samples) < 40 {
					rep.Samples = append(rep.Samples, dlMismatch{Case: idx, Step: step, Ops: strings.Join(ops, " ; "), Kind: kind, What: what, Sig: kind})
				}
			})
		}()
		if rep.Mismatches >= 25 {
			break
		}
	}
	out, _ := json.Marshal(rep)
	fmt.Println(string(out))
	return nil
}
