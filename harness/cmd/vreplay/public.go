package main

import (
	"bufio"
	"encoding/json"
	"errors"
	"flag"
	"fmt"
	"io"
	"os"
	"sort"
	"strings"

	"github.com/openziti/storage/ast"
	"github.com/openziti/storage/boltz"
	"github.com/sirupsen/logrus"
	"verif/harness/internal/qrun"
	"verif/harness/internal/qschema"
)

type pubMismatch struct {
	Case      int      `json:"case"`
	Query     string   `json:"query"`
	NonPublic []string `json:"non_public"`
	Kind      string   `json:"kind"` // accepted | rejected | wrong-symbol | panic | parse
	Err       string   `json:"err"`
	Sig       string   `json:"sig"`
}

type pubReport struct {
	Cases       int            `json:"cases"`
	Assignments int            `json:"assignments"`
	NonTrivial  int            `json:"distinct_nontrivial"` // assignments with at least one public and one non-public referenced symbol
	NodeKinds   []string       `json:"node_kinds"`
	Mismatches  int            `json:"mismatch_count"`
	BySig       map[string]int `json:"by_sig"`
	Samples     []pubMismatch  `json:"mismatches"`
}

type kindRecorder struct {
	ast.DefaultVisitor
	kinds map[string]bool
}

// vreplay public --in cases.ndjson : C20, ValidateSymbolsArePublic accepts iff every referenced symbol is public
func publicMain(args []string) error {
	fs := flag.NewFlagSet("public", flag.ExitOnError)
	in := fs.String("in", "", "cases (QueryCases.tla), one JSON object per line")
	_ = fs.Parse(args)
	logrus.SetOutput(io.Discard)
	f, err := os.Open(*in)
	if err != nil {
		return err
	}
	defer f.Close()
	rep := pubReport{BySig: map[string]int{}}
	sc := bufio.NewScanner(f)
	sc.Buffer(make([]byte, 1<<20), 1<<26)
	idx := -1
	for sc.Scan() {
		idx++
		var c qrun.Case
		if err := json.Unmarshal(sc.Bytes(), &c); err != nil {
			return err
		}
		text := qrun.Query(c.Q)
		// publicity units of the referenced symbols
		unitOf := func(name string) string {
			if strings.HasPrefix(name, "tags.") || name == "tags" {
				return "tags"
			}
			if strings.HasPrefix(name, "lbl.") || name == "lbl" {
				return "lbl"
			}
			return name
		}
		units := map[string]bool{}
		for _, s := range c.Syms {
			u := unitOf(qrun.Sym(s))
			if u != "id" && u != "boss" {
				units[u] = true
			}
		}
		var T []string
		for u := range units {
			T = append(T, u)
		}
		sort.Strings(T)
		rep.Cases++
		if len(T) > 6 {
			T = T[:6]
		}
		for mask := 0; mask < 1<<len(T); mask++ {
			non := map[string]bool{}
			var nonList []string
			for i, u := range T {
				if mask&(1<<i) != 0 {
					non[u] = true
					nonList = append(nonList, u)
				}
			}
			rep.Assignments++
			if len(nonList) > 0 && len(nonList) < len(T) {
				rep.NonTrivial++
			}
			add := func(kind, e string) {
				m := pubMismatch{Case: idx, Query: text, NonPublic: nonList, Kind: kind, Err: e, Sig: kind + ":" + fmt.Sprint(c.Q["p"].(map[string]any)["k"])}
				rep.Mismatches++
				rep.BySig[m.Sig]++
				if rep.BySig[m.Sig] <= 2 && len(rep.Samples) < 80 {
					rep.Samples = append(rep.Samples, m)
				}
			}
			func() {
				defer func() {
					if p := recover(); p != nil {
						add("panic", fmt.Sprint(p))
					}
				}()
				st := qschema.NewPublic(func(name string) bool { return !non[name] })
				for _, u := range T {
					if strings.Contains(u, ".") && !non[u] {
						st.Publish(u)
					}
				}
				for _, s := range c.Syms { // dotted symbols that are not toggled (more than 6 symbols): public
					n := qrun.Sym(s)
					if strings.Contains(n, ".") && !strings.HasPrefix(n, "tags.") && !strings.HasPrefix(n, "lbl.") && !non[n] {
						st.Publish(n)
					}
				}
				q, err := ast.Parse(st, text)
				if err != nil {
					add("parse", err.Error())
					return
				}
				verr := boltz.ValidateSymbolsArePublic(q, st)
				switch {
				case len(nonList) == 0 && verr != nil:
					add("rejected", verr.Error())
				case len(nonList) > 0 && verr == nil:
					add("accepted", "")
				case len(nonList) > 0:
					var use ast.UnknownSymbolError
					if !errors.As(verr, &use) || !non[unitOf(use.Symbol)] {
						add("wrong-symbol", verr.Error())
					}
				}
			}()
		}
	}
	out, _ := json.Marshal(rep)
	fmt.Println(string(out))
	return nil
}
