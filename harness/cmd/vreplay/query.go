package main

import (
	"bufio"
	"encoding/json"
	"flag"
	"fmt"
	"io"
	"os"
	"sync"
	"time"

	"github.com/sirupsen/logrus"
	"verif/harness/internal/qrun"
)

type queryReport struct {
	Cases      int             `json:"cases"`
	PathRuns   int             `json:"path_runs"`
	NonTrivial int             `json:"distinct_nontrivial"` // distinct cases whose expected answer is neither empty nor everything
	Mismatches int             `json:"mismatch_count"`
	BySig      map[string]int  `json:"by_sig"`
	Samples    []qrun.Mismatch `json:"mismatches"`
	SampleCase []qrun.Case     `json:"sample_cases"`
}

// vreplay query --datasets ds.ndjson --in cases.ndjson --scratch dir
func queryMain(args []string) error {
	fs := flag.NewFlagSet("query", flag.ExitOnError)
	dsPath := fs.String("datasets", "", "datasets, one JSON object {dataset: ...} per line")
	in := fs.String("in", "", "cases, one JSON object per line")
	scratch := fs.String("scratch", "", "scratch directory")
	workers := fs.Int("workers", 8, "parallel workers")
	maxM := fs.Int("max-mismatches", 60, "mismatches kept per signature group in the report")
	total := fs.Bool("total", false, "C10: cases carry no expected answer, only panics are reported")
	_ = fs.Parse(args)
	qrun.Total = *total
	logrus.SetOutput(io.Discard)

	datasets := map[string]map[string]any{}
	f, err := os.Open(*dsPath)
	if err != nil {
		return err
	}
	sc := bufio.NewScanner(f)
	sc.Buffer(make([]byte, 1<<20), 1<<26)
	for sc.Scan() {
		var rec struct {
			Dataset map[string]any `json:"dataset"`
		}
		if err := json.Unmarshal(sc.Bytes(), &rec); err != nil {
			return err
		}
		if rec.Dataset != nil {
			datasets[rec.Dataset["name"].(string)] = rec.Dataset
		}
	}
	f.Close()

	cf, err := os.Open(*in)
	if err != nil {
		return err
	}
	defer cf.Close()
	var cases []qrun.Case
	sc = bufio.NewScanner(cf)
	sc.Buffer(make([]byte, 1<<20), 1<<26)
	for sc.Scan() {
		var c qrun.Case
		if err := json.Unmarshal(sc.Bytes(), &c); err != nil {
			return err
		}
		cases = append(cases, c)
	}

	rep := queryReport{BySig: map[string]int{}}
	var mu sync.Mutex
	var wg sync.WaitGroup
	jobs := make(chan int, 256)
	// watchdog: a query that does not come back is an answer that was never given (a library call cannot be interrupted: the
	// report so far is printed with the case marked and the process ends)
	type running struct {
		idx   int
		since time.Time
	}
	current := make([]running, *workers)
	for w := range current {
		current[w].idx = -1
	}
	go func() {
		for {
			time.Sleep(time.Second)
			mu.Lock()
			for _, r := range current {
				if r.idx >= 0 && time.Since(r.since) > 30*time.Second {
					c := &cases[r.idx]
					m := qrun.Mismatch{Case: r.idx, Ds: c.Ds, Query: qrun.Query(c.Q), Path: "QueryIds", Kind: "hang", Want: c.Ids, WantN: c.Count,
						Err: "the query did not return within 30s", Owners: "C01,C02,C19", Sig: "QueryIds:hang"}
					rep.Mismatches++
					rep.BySig[m.Sig]++
					rep.Samples = append(rep.Samples, m)
					out, _ := json.Marshal(rep)
					fmt.Println(string(out))
					os.Exit(0)
				}
			}
			mu.Unlock()
		}
	}()
	for w := 0; w < *workers; w++ {
		wg.Add(1)
		dir := fmt.Sprintf("%s/qw%d", *scratch, w)
		_ = os.MkdirAll(dir, 0700)
		w := w
		go func(dir string) {
			defer wg.Done()
			envs := map[string]*qrun.Env{}
			defer func() {
				for _, e := range envs {
					e.Close()
				}
			}()
			for i := range jobs {
				c := &cases[i]
				env := envs[c.Ds]
				if env == nil {
					ds := datasets[c.Ds]
					if ds == nil {
						fmt.Fprintln(os.Stderr, "unknown dataset", c.Ds)
						os.Exit(2)
					}
					env, err = qrun.NewEnv(dir, ds)
					if err != nil {
						fmt.Fprintln(os.Stderr, "loading dataset", c.Ds, ":", err)
						os.Exit(2)
					}
					envs[c.Ds] = env
				}
				mu.Lock()
				current[w] = running{i, time.Now()}
				mu.Unlock()
				ms := env.Run(i, c)
				mu.Lock()
				current[w].idx = -1
				rep.Cases++
				if len(c.Ids) > 0 && len(c.Ids) < len(env.Names) {
					rep.NonTrivial++
				}
				for _, m := range ms {
					rep.Mismatches++
					rep.BySig[m.Sig]++
					if rep.BySig[m.Sig] <= 2 && len(rep.Samples) < *maxM {
						rep.Samples = append(rep.Samples, m)
					}
				}
				mu.Unlock()
			}
		}(dir)
	}
	for i := range cases {
		jobs <- i
	}
	close(jobs)
	wg.Wait()
	for i := 0; i < len(cases) && i < 3; i++ {
		rep.SampleCase = append(rep.SampleCase, cases[i*len(cases)/3])
	}
	out, _ := json.Marshal(rep)
	fmt.Println(string(out))
	return nil
}
