package main

import (
	"bufio"
	"crypto/sha1"
	"encoding/json"
	"flag"
	"fmt"
	"io"
	"os"
	"path/filepath"
	"sync"

	"github.com/sirupsen/logrus"
	"verif/harness/internal/project"
	"verif/harness/internal/schema"
	"verif/harness/internal/storerun"
)

// StoreCfg is the run configuration written by bin/check.
type StoreCfg struct {
	Schema schema.Config     `json:"schema"`
	Tokens map[string]string `json:"tokens"` // model token -> real string
	Deep   bool              `json:"deep"`
	Prop   string            `json:"prop"`
}

type storeReport struct {
	Behaviours     int                  `json:"behaviours"`
	Abandoned      int                  `json:"abandoned"`
	Steps          int                  `json:"steps"`
	TxCommitted    int                  `json:"tx_committed"`
	TxAborted      int                  `json:"tx_aborted"`
	OpsOk          int                  `json:"ops_ok"`
	OpsFailed      int                  `json:"ops_failed"`
	EventsChecked  int                  `json:"events_checked"`
	ViolationCount int                  `json:"violation_count"`
	Distinct       int                  `json:"distinct_nontrivial"` // distinct behaviours with at least one committed, non-empty transaction
	Violations     []storerun.Violation `json:"violations"`
	Panics         []string             `json:"panics,omitempty"`
}

type behaviour struct {
	Steps []storerun.Step `json:"steps"`
	Idx   *int            `json:"idx,omitempty"` // original index (salts of the replayer depend on it) when re-executed alone
}

func storeMain(args []string) error {
	fs := flag.NewFlagSet("store", flag.ExitOnError)
	in := fs.String("in", "", "behaviours, one JSON object per line")
	cfgPath := fs.String("cfg", "", "run configuration (JSON)")
	scratch := fs.String("scratch", "", "scratch directory (tmpfs)")
	workers := fs.Int("workers", 4, "parallel replayers")
	maxV := fs.Int("max-violations", 40, "violations kept in the report")
	_ = fs.Parse(args)
	logrus.SetOutput(io.Discard)

	var cfg StoreCfg
	raw, err := os.ReadFile(*cfgPath)
	if err != nil {
		return err
	}
	if err = json.Unmarshal(raw, &cfg); err != nil {
		return err
	}
	f, err := os.Open(*in)
	if err != nil {
		return err
	}
	defer f.Close()

	type job struct {
		idx int
		b   behaviour
	}
	jobs := make(chan job, 64)
	var mu sync.Mutex
	rep := storeReport{}
	distinct := map[[20]byte]bool{}
	var wg sync.WaitGroup
	for w := 0; w < *workers; w++ {
		dir := filepath.Join(*scratch, fmt.Sprintf("w%d", w))
		if err := os.MkdirAll(dir, 0700); err != nil {
			return err
		}
		wg.Add(1)
		go func(dir string) {
			defer wg.Done()
			for j := range jobs {
				if pf := os.Getenv("VERIF_PROGRESS"); pf != "" {
					// (with one worker: the behaviour under way, for the caller to find after a fatal error of the runtime -- a stack
					// overflow, a concurrent map write -- which no recover() sees)
					_ = os.WriteFile(pf, []byte(fmt.Sprint(j.idx)), 0600)
				}
				r, p := runOne(dir, &cfg, j.idx, j.b.Steps)
				mu.Lock()
				rep.Behaviours++
				if p != "" {
					rep.Panics = append(rep.Panics, p)
				}
				if r != nil {
					if r.TxCommitted > 0 && r.OpsOk > 0 {
						distinct[sigOf(j.b.Steps)] = true
					}
					rep.Steps += r.StepsRun
					rep.TxCommitted += r.TxCommitted
					rep.TxAborted += r.TxAborted
					rep.OpsOk += r.OpsOk
					rep.OpsFailed += r.OpsFailed
					rep.EventsChecked += r.EventsChecked
					rep.ViolationCount += len(r.V)
					if len(r.V) > 0 {
						rep.Abandoned++
					}
					for _, v := range r.V {
						if len(rep.Violations) < *maxV {
							rep.Violations = append(rep.Violations, v)
						}
					}
				}
				mu.Unlock()
			}
		}(dir)
	}
	sc := bufio.NewScanner(f)
	sc.Buffer(make([]byte, 1<<20), 1<<28)
	idx := 0
	for sc.Scan() {
		line := sc.Bytes()
		if len(line) == 0 {
			continue
		}
		var b behaviour
		if err := json.Unmarshal(line, &b); err != nil {
			return fmt.Errorf("behaviour %d: %w", idx, err)
		}
		if b.Idx != nil {
			jobs <- job{idx: *b.Idx, b: b}
		} else {
			jobs <- job{idx: idx, b: b}
		}
		idx++
	}
	close(jobs)
	wg.Wait()
	if err := sc.Err(); err != nil {
		return err
	}
	rep.Distinct = len(distinct)
	out, _ := json.Marshal(rep)
	fmt.Println(string(out))
	return nil
}

func sigOf(steps []storerun.Step) [20]byte {
	h := sha1.New()
	for _, s := range steps {
		b, _ := json.Marshal(s.Last)
		h.Write(b)
	}
	var out [20]byte
	copy(out[:], h.Sum(nil))
	return out
}

func runOne(dir string, cfg *StoreCfg, idx int, steps []storerun.Step) (r *storerun.Runner, panicMsg string) {
	env, err := storerun.NewEnv(dir, cfg.Schema, project.NewTokens(cfg.Tokens))
	if err != nil {
		return nil, "env: " + err.Error()
	}
	defer env.Close()
	r = &storerun.Runner{Env: env, Idx: idx, Deep: cfg.Deep, Prop: cfg.Prop}
	defer func() {
		if p := recover(); p != nil {
			panicMsg = fmt.Sprintf("behaviour %d: panic: %v", idx, p)
			r.V = append(r.V, storerun.Violation{Behaviour: idx, Step: -1, Kind: "panic", Owners: "core", Detail: fmt.Sprint(p), Sig: "panic"})
		}
	}()
	r.Run(steps)
	return r, ""
}
