package main

import (
	"bufio"
	"encoding/json"
	"flag"
	"fmt"
	"io"
	"math/rand"
	"os"

	"github.com/sirupsen/logrus"
	"verif/harness/internal/project"
	"verif/harness/internal/schema"
	"verif/harness/internal/storerun"
)

type traceRunCfg struct {
	Schema schema.Config     `json:"schema"`
	Tokens map[string]string `json:"tokens"`
	Trace  storerun.TraceCfg `json:"trace"`
}

// vreplay storetrace --cfg cfg.json --out trace.ndjson --scratch dir --seed n --traces k --txs m
// records k executions of m random transactions each on the real stores (StoreTrace.tla validates the file)
func storeTraceMain(args []string) error {
	fs := flag.NewFlagSet("storetrace", flag.ExitOnError)
	cfgPath := fs.String("cfg", "", "configuration (JSON)")
	out := fs.String("out", "", "trace file (ndjson)")
	scratch := fs.String("scratch", "", "scratch directory")
	seed := fs.Int64("seed", 1, "seed")
	traces := fs.Int("traces", 10, "executions")
	txs := fs.Int("txs", 12, "transactions per execution")
	_ = fs.Parse(args)
	logrus.SetOutput(io.Discard)
	var cfg traceRunCfg
	raw, err := os.ReadFile(*cfgPath)
	if err != nil {
		return err
	}
	if err = json.Unmarshal(raw, &cfg); err != nil {
		return err
	}
	f, err := os.Create(*out)
	if err != nil {
		return err
	}
	defer f.Close()
	w := bufio.NewWriterSize(f, 1<<20)
	defer w.Flush()
	rng := rand.New(rand.NewSource(*seed))
	rep := map[string]any{}
	lines, okOps, failOps, commits := 0, 0, 0, 0
	var panics []string
	for k := 0; k < *traces; k++ {
		if k > 0 {
			w.WriteString("{\"op\":\"reset\"}\n")
			lines++
		}
		err := func() (err error) {
			env, err := storerun.NewEnv(*scratch, cfg.Schema, project.NewTokens(cfg.Tokens))
			if err != nil {
				return err
			}
			defer env.Close()
			defer func() {
				if p := recover(); p != nil {
					panics = append(panics, fmt.Sprintf("execution %d: panic: %v", k, p))
				}
			}()
			n, err := storerun.RunTrace(env, cfg.Trace, rng, *txs, func(m map[string]any) {
				b, _ := json.Marshal(m)
				w.Write(b)
				w.WriteByte('\n')
				switch {
				case m["op"] == "commit" && m["res"] == "ok":
					commits++
				case m["op"] == "begin":
				case m["res"] == "ok":
					okOps++
				default:
					failOps++
				}
			})
			lines += n
			return err
		}()
		if err != nil {
			return err
		}
	}
	rep["executions"], rep["lines"], rep["ops_ok"], rep["ops_failed"], rep["commits"], rep["panics"] = *traces, lines, okOps, failOps, commits, panics
	b, _ := json.Marshal(rep)
	fmt.Println(string(b))
	return nil
}
