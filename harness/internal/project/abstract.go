package project

import (
	"encoding/hex"
	"fmt"
	"sort"
	"strings"
	"sync/atomic"
)

// Facts is the abstract state of the verification schema as a flat map; both the projection of the
// real file and the variables of Store.tla are brought into this shape and compared key by key.
//
//	ent/<id>/<field>      name nick boss team sys roles(list)
//	ext/<id>/<field>      lead grade
//	tms/<t>               "1"
//	uName/<v> uNick/<v> uGrade/<v>   -> id
//	sKey/<r>              "1"   (key bucket exists)      sRoles/<r> -> list of ids (non-empty only)
//	backBoss/<id> backTeam/<t> lnkPT/<id> lnkTP/<t>      -> list (non-empty only)
//	rcPT/<id>/<t> rcTP/<t>/<id>                          -> count (non-zero only)
type Facts map[string]string

// Tokens maps model tokens (ids, values) to the real strings used in the database and back.
// An id of the teams store may be the same string as an id of the people store (different stores, same id): team tokens
// (t1, t2, ...) are mapped back in a namespace of their own (ModelT), everything else through Model.
type Tokens struct {
	ToReal   map[string]string
	toModel  map[string]string
	toModelT map[string]string
}

func isTeamToken(k string) bool { return len(k) >= 2 && k[0] == 't' && k[1] >= '0' && k[1] <= '9' }

func NewTokens(toReal map[string]string) *Tokens {
	t := &Tokens{ToReal: map[string]string{}, toModel: map[string]string{}, toModelT: map[string]string{}}
	for k, v := range toReal {
		t.ToReal[k] = v
		if isTeamToken(k) {
			t.toModelT[v] = k
		} else {
			t.toModel[v] = k
		}
	}
	for v, k := range t.toModelT { // a team token is also the general answer when nothing else claims the string
		if _, taken := t.toModel[v]; !taken {
			t.toModel[v] = k
		}
	}
	return t
}

// Shared says whether a real string is the id of a team and of something else at once
func (t *Tokens) Shared(real string) bool {
	if t == nil {
		return false
	}
	_, a := t.toModelT[real]
	k, b := t.toModel[real]
	return a && b && !isTeamToken(k)
}

// ModelT maps a real string that stands where a team id stands
func (t *Tokens) ModelT(real string) string {
	if t != nil {
		if m, ok := t.toModelT[real]; ok {
			return m
		}
	}
	return t.Model(real)
}

func (t *Tokens) listT(xs []string) string {
	out := make([]string, 0, len(xs))
	for _, x := range xs {
		out = append(out, t.ModelT(x))
	}
	sort.Strings(out)
	return strings.Join(out, ",")
}

func (t *Tokens) Real(tok string) string {
	if t != nil {
		if r, ok := t.ToReal[tok]; ok {
			return r
		}
	}
	return tok
}

func (t *Tokens) Model(real string) string {
	if t != nil {
		if m, ok := t.toModel[real]; ok {
			return m
		}
		if _, clash := t.ToReal[real]; clash {
			return "?real:" + real
		}
	}
	if len(real) > 64 {
		return fmt.Sprintf("?long%d:%s", len(real), hex.EncodeToString([]byte(real[:8])))
	}
	return real
}

func (t *Tokens) list(xs []string) string {
	out := make([]string, 0, len(xs))
	for _, x := range xs {
		out = append(out, t.Model(x))
	}
	sort.Strings(out)
	return strings.Join(out, ",")
}

// StoreFacts interprets the raw tree according to the layout of the verification schema.
func StoreFacts(root *Node, t *Tokens) Facts {
	f := Facts{}
	stores := root.Path("stores")
	if stores == nil {
		return f
	}
	if people := stores.B["people"]; people != nil {
		for k, v := range people.K {
			f["?people-key/"+q(k)] = q(v)
		}
		for rid, eb := range people.B {
			id := t.Model(rid)
			f["ent/"+id+"/sys"] = "false"
			f["ent/"+id+"/roles"] = ""
			for k, v := range eb.K {
				switch k {
				case "name":
					f["ent/"+id+"/"+k] = t.Model(DecodeValue(v))
				case "team":
					f["ent/"+id+"/"+k] = t.ModelT(DecodeValue(v))
				case "nickname": // stored key of the symbol nick
					f["ent/"+id+"/nick"] = t.Model(DecodeValue(v))
				case "bossId": // stored key of the symbol boss
					f["ent/"+id+"/boss"] = t.Model(DecodeValue(v))
				case "isSystem":
					f["ent/"+id+"/sys"] = DecodeValue(v)
				case "createdAt", "updatedAt":
				default:
					f["ent/"+id+"/?"+q(k)] = q(v)
				}
			}
			for k, sub := range eb.B {
				switch k {
				case "roles":
					f["ent/"+id+"/roles"] = t.list(TypedKeys(sub))
				case "tags":
					if len(sub.K)+len(sub.B) > 0 {
						f["ent/"+id+"/tags"] = fmt.Sprint(len(sub.K) + len(sub.B))
					}
				case "reports":
					if l := TypedKeys(sub); len(l) > 0 {
						f["backBoss/"+id] = t.list(l)
					}
				case "teams":
					if l := TypedKeys(sub); len(l) > 0 {
						f["lnkPT/"+id] = t.listT(l)
					}
				case "svc":
					rcFacts(f, "rcPT/"+id+"/", sub, t, true)
				case "ext":
					f["ext/"+id+"/lead"] = "false"
					for xk, xv := range sub.K {
						switch xk {
						case "lead", "grade":
							f["ext/"+id+"/"+xk] = t.Model(DecodeValue(xv))
						default:
							f["ext/"+id+"/?"+q(xk)] = q(xv)
						}
					}
					for xk, xsub := range sub.B {
						switch xk {
						case "chiefOf":
							if l := TypedKeys(xsub); len(l) > 0 {
								f["backChief/"+id] = t.listT(l)
							}
						case "squads":
							if l := TypedKeys(xsub); len(l) > 0 {
								f["lnkST/"+id] = t.listT(l)
							}
						default:
							f["ext/"+id+"/?bucket:"+q(xk)] = "1"
						}
					}
				default:
					f["ent/"+id+"/?bucket:"+q(k)] = "1"
				}
			}
		}
	}
	if teams := stores.B["teams"]; teams != nil {
		for rid, eb := range teams.B {
			id := t.ModelT(rid)
			f["tms/"+id] = "1"
			for k, v := range eb.K {
				if k == "chief" {
					if c := t.Model(DecodeValue(v)); c != Nil {
						f["chief/"+id] = c
					}
					continue
				}
				f["tms/"+id+"/?"+q(k)] = q(v)
			}
			for k, sub := range eb.B {
				switch k {
				case "squadStaff":
					if l := TypedKeys(sub); len(l) > 0 {
						f["lnkTS/"+id] = t.list(l)
					}
				case "tmembers":
					if l := TypedKeys(sub); len(l) > 0 {
						f["backTeam/"+id] = t.list(l)
					}
				case "members":
					if l := TypedKeys(sub); len(l) > 0 {
						f["lnkTP/"+id] = t.list(l)
					}
				case "users":
					rcFacts(f, "rcTP/"+id+"/", sub, t, false)
				default:
					f["tms/"+id+"/?bucket:"+q(k)] = "1"
				}
			}
		}
	}
	if idx := stores.Path("indexes", "people"); idx != nil {
		for name, ib := range idx.B {
			switch name {
			case "name", "nick", "grade":
				pfx := map[string]string{"name": "uName/", "nick": "uNick/", "grade": "uGrade/"}[name]
				for k, v := range ib.K {
					f[pfx+t.Model(k)] = t.Model(v)
				}
				for k := range ib.B {
					f[pfx+"?bucket:"+q(k)] = "1"
				}
			case "roles":
				for k, sub := range ib.B {
					r := t.Model(k)
					f["sKey/"+r] = "1"
					if l := TypedKeys(sub); len(l) > 0 {
						f["sRoles/"+r] = t.list(l)
					}
				}
				for k, v := range ib.K {
					f["sRoles/?key:"+q(k)] = q(v)
				}
			default:
				f["?index/"+q(name)] = "1"
			}
		}
	}
	return f
}

func rcFacts(f Facts, pfx string, sub *Node, t *Tokens, keysAreTeams bool) {
	for k, v := range sub.K {
		if len(k) > 0 && k[0] == tString {
			m := t.Model(k[1:])
			if keysAreTeams {
				m = t.ModelT(k[1:])
			}
			f[pfx+m] = DecodeValue(v)
		} else {
			f[pfx+"?"+hex.EncodeToString([]byte(k))] = q(v)
		}
	}
}

func jlist(v any) string {
	arr, _ := v.([]any)
	out := make([]string, 0, len(arr))
	for _, x := range arr {
		out = append(out, fmt.Sprint(x))
	}
	sort.Strings(out)
	return strings.Join(out, ",")
}

// ModelFacts brings the `db` record of Store.tla (as decoded JSON) into the same shape.
func ModelFacts(db map[string]any) Facts {
	f := Facts{}
	obj := func(k string) map[string]any {
		m, _ := db[k].(map[string]any)
		return m
	}
	for id, v := range obj("ent") {
		p, ok := v.(map[string]any)
		if !ok || p["none"] != nil {
			continue
		}
		for _, k := range []string{"name", "nick", "boss", "team"} {
			f["ent/"+id+"/"+k] = fmt.Sprint(p[k])
		}
		f["ent/"+id+"/sys"] = fmt.Sprint(p["sys"])
		f["ent/"+id+"/roles"] = jlist(p["roles"])
	}
	for id, v := range obj("ext") {
		if x, ok := v.(map[string]any); ok && x["none"] == nil {
			f["ext/"+id+"/lead"] = fmt.Sprint(x["lead"])
			f["ext/"+id+"/grade"] = fmt.Sprint(x["grade"])
		}
	}
	if tms, ok := db["tms"].([]any); ok {
		for _, t := range tms {
			f["tms/"+fmt.Sprint(t)] = "1"
		}
	}
	for _, u := range []string{"uName", "uNick", "uGrade"} {
		for v, id := range obj(u) {
			if fmt.Sprint(id) != Nil {
				f[u+"/"+v] = fmt.Sprint(id)
			}
		}
	}
	if sk, ok := db["sKeys"].([]any); ok {
		for _, r := range sk {
			f["sKey/"+fmt.Sprint(r)] = "1"
		}
	}
	for t, c := range obj("chief") {
		if fmt.Sprint(c) != Nil {
			f["chief/"+t] = fmt.Sprint(c)
		}
	}
	for _, s := range []string{"sRoles", "backBoss", "backTeam", "lnkPT", "lnkTP", "backChief", "lnkST", "lnkTS"} {
		for k, v := range obj(s) {
			if l := jlist(v); l != "" {
				f[s+"/"+k] = l
			}
		}
	}
	for _, s := range []string{"rcPT", "rcTP"} {
		for a, v := range obj(s) {
			if m, ok := v.(map[string]any); ok {
				for b, c := range m {
					if fmt.Sprint(c) != "0" {
						f[s+"/"+a+"/"+b] = fmt.Sprint(c)
					}
				}
			}
		}
	}
	return f
}

// Owner names the property that owns an observable (DESIGN.md, Appendix B).
func Owner(key string) string {
	switch {
	case strings.HasPrefix(key, "uName/"), strings.HasPrefix(key, "uNick/"), strings.HasPrefix(key, "sKey/"), strings.HasPrefix(key, "sRoles/"):
		return "C03"
	case strings.HasPrefix(key, "uGrade/"):
		return "C03,C15"
	case strings.HasPrefix(key, "backBoss/"), strings.HasPrefix(key, "backTeam/"):
		return "C04"
	case strings.HasPrefix(key, "chief/"), strings.HasPrefix(key, "backChief/"):
		return "C04,C15"
	case strings.HasPrefix(key, "lnkST/"), strings.HasPrefix(key, "lnkTS/"):
		return "C05,C15"
	case strings.HasPrefix(key, "lnk"), strings.HasPrefix(key, "rc"):
		return "C05"
	case strings.HasPrefix(key, "ext/"):
		return "C15"
	case strings.HasPrefix(key, "ent/") && strings.HasSuffix(key, "/sys"):
		return "C16"
	case strings.HasPrefix(key, "ent/") && (strings.HasSuffix(key, "/boss") || strings.HasSuffix(key, "/team")):
		return "C04"
	}
	return "core"
}

type Diff struct {
	Key   string `json:"key"`
	Model string `json:"model"`
	Real  string `json:"real"`
	Owner string `json:"owner"`
}

// Compare returns the facts on which model and implementation disagree ("" = absent).
// Unmodelled counts the facts of the file that have no counterpart in the specification's vocabulary (keys the projection marks with
// "?": an unknown field, bucket or index).  They are not differences -- the specification says nothing about them -- but they are counted
// (report of the replayer) and stay subject to the raw checks: the byte-for-byte comparison after a roll-back and the residue scan.
var Unmodelled int64

func Compare(model, real Facts) []Diff {
	var out []Diff
	for k := range real {
		if strings.Contains(k, "?") {
			atomic.AddInt64(&Unmodelled, 1)
			delete(real, k)
		}
	}
	for k, mv := range model {
		if rv, ok := real[k]; !ok || rv != mv {
			out = append(out, Diff{Key: k, Model: mv, Real: real[k], Owner: Owner(k)})
		}
	}
	for k, rv := range real {
		if _, ok := model[k]; !ok {
			out = append(out, Diff{Key: k, Model: "", Real: rv, Owner: Owner(k)})
		}
	}
	sort.Slice(out, func(i, j int) bool { return out[i].Key < out[j].Key })
	return out
}
