// Package project is the observation function shared by the REPLAY and TRACE engines: it walks a bolt
// file with raw bbolt cursors and its own decoder of the value encoding (type tag + payload) -- not
// through boltz getters -- and returns (a) the complete logical content as a tree and (b) the abstract
// state of the verification schema as a flat map of facts.
package project

import (
	"encoding/binary"
	"encoding/hex"
	"fmt"
	"math"
	"sort"
	"strings"
	"time"

	"go.etcd.io/bbolt"
)

// Node is one bucket: sub-buckets and plain keys (raw bytes kept as Go strings).
type Node struct {
	B map[string]*Node
	K map[string]string
}

func newNode() *Node { return &Node{B: map[string]*Node{}, K: map[string]string{}} }

func dumpBucket(b *bbolt.Bucket) *Node {
	n := newNode()
	c := b.Cursor()
	for k, v := c.First(); k != nil; k, v = c.Next() {
		if v == nil {
			if sub := b.Bucket(k); sub != nil {
				n.B[string(k)] = dumpBucket(sub)
				continue
			}
		}
		n.K[string(k)] = string(v)
	}
	return n
}

// Dump returns the logical content of the whole database as seen by tx.
func Dump(tx *bbolt.Tx) *Node {
	root := newNode()
	_ = tx.ForEach(func(name []byte, b *bbolt.Bucket) error {
		root.B[string(name)] = dumpBucket(b)
		return nil
	})
	return root
}

func DumpDB(db *bbolt.DB) *Node {
	var n *Node
	_ = db.View(func(tx *bbolt.Tx) error {
		n = Dump(tx)
		return nil
	})
	return n
}

// DumpFile opens a bolt file read-only and dumps it.
func DumpFile(path string) (*Node, error) {
	db, err := bbolt.Open(path, 0600, &bbolt.Options{ReadOnly: true, Timeout: time.Second})
	if err != nil {
		return nil, err
	}
	defer db.Close()
	return DumpDB(db), nil
}

func (n *Node) Path(p ...string) *Node {
	cur := n
	for _, e := range p {
		if cur == nil {
			return nil
		}
		cur = cur.B[e]
	}
	return cur
}

func q(s string) string {
	for _, r := range s {
		if r < 0x20 || r > 0x7e {
			return "0x" + hex.EncodeToString([]byte(s))
		}
	}
	return s
}

// Lines renders the tree as sorted "path = value" lines; skip decides what to leave out.
func (n *Node) Lines(skip func(path []string, key string) bool) []string {
	var out []string
	var walk func(x *Node, path []string)
	walk = func(x *Node, path []string) {
		if x == nil {
			return
		}
		for k, v := range x.K {
			if skip != nil && skip(path, k) {
				continue
			}
			out = append(out, strings.Join(path, "/")+"/"+q(k)+" = "+q(v))
		}
		for k, sub := range x.B {
			if skip != nil && skip(path, k) {
				continue
			}
			p := append(append([]string{}, path...), q(k))
			out = append(out, strings.Join(p, "/")+"/")
			walk(sub, p)
		}
	}
	walk(n, nil)
	sort.Strings(out)
	return out
}

// DiffLines returns lines only in a ("-") and only in b ("+").
func DiffLines(a, b []string) []string {
	am := map[string]bool{}
	for _, l := range a {
		am[l] = true
	}
	bm := map[string]bool{}
	for _, l := range b {
		bm[l] = true
	}
	var out []string
	for _, l := range a {
		if !bm[l] {
			out = append(out, "- "+l)
		}
	}
	for _, l := range b {
		if !am[l] {
			out = append(out, "+ "+l)
		}
	}
	return out
}

// Occurrences lists every place where needle occurs as a key, as a typed key, as a bucket name, or as
// a (typed) value, below n.  ignore gets the path of the occurrence.
func (n *Node) Occurrences(needle string, ignore func(path []string) bool) []string {
	var out []string
	match := func(s string) bool {
		if s == needle {
			return true
		}
		if len(s) > 1 && s[1:] == needle && s[0] >= 1 && s[0] <= 7 {
			return true
		}
		return false
	}
	var walk func(x *Node, path []string)
	walk = func(x *Node, path []string) {
		for k, v := range x.K {
			p := append(append([]string{}, path...), q(k))
			if ignore != nil && ignore(p) {
				continue
			}
			if match(k) {
				out = append(out, "key "+strings.Join(p, "/"))
			}
			if match(v) {
				out = append(out, "value at "+strings.Join(p, "/"))
			}
		}
		for k, sub := range x.B {
			p := append(append([]string{}, path...), q(k))
			if ignore != nil && ignore(p) {
				continue
			}
			if match(k) {
				out = append(out, "bucket "+strings.Join(p, "/"))
			}
			walk(sub, p)
		}
	}
	walk(n, nil)
	sort.Strings(out)
	return out
}

// value encoding of boltz (independent re-implementation)
const (
	tBool    = 1
	tInt32   = 2
	tInt64   = 3
	tFloat64 = 4
	tString  = 5
	tTime    = 6
	tNil     = 7
)

const Nil = "~"

// DecodeValue renders a typed value as text: strings as themselves, nil as "~".
func DecodeValue(v string) string {
	if len(v) == 0 {
		return Nil
	}
	body := v[1:]
	switch v[0] {
	case tBool:
		if len(body) == 1 && body[0] == 1 {
			return "true"
		}
		return "false"
	case tInt32:
		if len(body) == 4 {
			return fmt.Sprint(int32(binary.LittleEndian.Uint32([]byte(body))))
		}
	case tInt64:
		if len(body) == 8 {
			return fmt.Sprint(int64(binary.LittleEndian.Uint64([]byte(body))))
		}
	case tFloat64:
		if len(body) == 8 {
			return fmt.Sprint(math.Float64frombits(binary.LittleEndian.Uint64([]byte(body))))
		}
	case tString:
		return body
	case tTime:
		var t time.Time
		if err := t.UnmarshalBinary([]byte(body)); err == nil {
			return t.UTC().Format(time.RFC3339Nano)
		}
	case tNil:
		return Nil
	}
	return "?" + hex.EncodeToString([]byte(v))
}

// TypedKeys returns the (untagged) elements of a list bucket, sorted.
func TypedKeys(n *Node) []string {
	if n == nil {
		return nil
	}
	var out []string
	for k := range n.K {
		if len(k) > 0 && k[0] == tString {
			out = append(out, k[1:])
		} else {
			out = append(out, "?"+hex.EncodeToString([]byte(k)))
		}
	}
	for k := range n.B {
		out = append(out, "?bucket:"+q(k))
	}
	sort.Strings(out)
	return out
}
