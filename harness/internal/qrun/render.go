// Package qrun renders the queries of Query.tla to ZitiQL text and runs them through every evaluation
// path of the real engine.
package qrun

import (
	"fmt"
	"strconv"
	"strings"
	"time"

	"verif/harness/internal/qschema"
)

const (
	NoVal     = -999
	NoneLimit = -998
)

func Sym(v any) string {
	arr, _ := v.([]any)
	parts := make([]string, 0, len(arr))
	for _, x := range arr {
		parts = append(parts, x.(string))
	}
	return strings.Join(parts, ".")
}

var escaper = strings.NewReplacer(`\`, `\\`, `"`, `\"`)

func Quote(s string) string { return `"` + escaper.Replace(s) + `"` }

func Lit(v any) string {
	tv := qschema.TV(v.(map[string]any))
	switch tv.Kind() {
	case "s":
		return Quote(tv.Go().(string))
	case "n":
		return strconv.FormatInt(tv.Go().(int64), 10)
	case "f":
		s := strconv.FormatFloat(tv.Go().(float64), 'f', -1, 64)
		if !strings.ContainsAny(s, ".e") {
			s += ".0"
		}
		return s
	case "b":
		return strconv.FormatBool(tv.Go().(bool))
	case "d":
		t := tv.Go().(time.Time)
		// the same instant spelled in different zones
		rank := int(t.Sub(qschema.Base) / time.Hour)
		zones := []*time.Location{time.UTC, time.FixedZone("", 2*3600), time.FixedZone("", -(5*3600 + 30*60))}
		return "datetime(" + t.In(zones[((rank%3)+3)%3]).Format(time.RFC3339) + ")"
	}
	return "null"
}

var opText = map[string]string{"eq": "=", "ne": "!=", "lt": "<", "le": "<=", "gt": ">", "ge": ">="}

func lits(v any) string {
	arr, _ := v.([]any)
	out := make([]string, 0, len(arr))
	for _, x := range arr {
		out = append(out, Lit(x))
	}
	return "[" + strings.Join(out, ", ") + "]"
}

func atom(lhs string, a map[string]any) string {
	neg := a["neg"] == true
	not := ""
	if neg {
		not = "not "
	}
	switch a["k"] {
	case "cmp":
		return lhs + " " + opText[a["op"].(string)] + " " + Lit(a["lit"])
	case "null":
		if neg {
			return lhs + " != null"
		}
		return lhs + " = null"
	case "in":
		return lhs + " " + not + "in " + lits(a["lits"])
	case "between":
		return lhs + " " + not + "between " + Lit(a["lo"]) + " and " + Lit(a["hi"])
	case "contains":
		w := "contains"
		if a["ci"] == true {
			w = "icontains"
		}
		return lhs + " " + not + w + " " + Lit(a["lit"])
	}
	return "?atom?"
}

func Filter(f map[string]any) string {
	switch f["k"] {
	case "const":
		return strconv.FormatBool(f["v"].(bool))
	case "boolsym":
		return Sym(f["sym"])
	case "atom":
		return atom(Sym(f["sym"]), f["a"].(map[string]any))
	case "anyOf", "allOf":
		return atom(f["k"].(string)+"("+Sym(f["sym"])+")", f["a"].(map[string]any))
	case "count":
		return "count(" + Sym(f["sym"]) + ") " + opText[f["op"].(string)] + " " + Lit(f["n"])
	case "isEmpty":
		return "isEmpty(" + Sym(f["sym"]) + ")"
	case "countq":
		return "count(from " + Sym(f["sym"]) + " where " + Query(f["q"].(map[string]any)) + ") " + opText[f["op"].(string)] + " " + Lit(f["n"])
	case "isEmptyq":
		return "isEmpty(from " + Sym(f["sym"]) + " where " + Query(f["q"].(map[string]any)) + ")"
	case "and", "or":
		return "(" + Filter(f["l"].(map[string]any)) + ") " + f["k"].(string) + " (" + Filter(f["r"].(map[string]any)) + ")"
	case "not":
		return "not (" + Filter(f["e"].(map[string]any)) + ")"
	}
	return "?filter?"
}

func Query(q map[string]any) string {
	var b strings.Builder
	b.WriteString(Filter(q["p"].(map[string]any)))
	if so, ok := q["sort"].([]any); ok && len(so) > 0 {
		b.WriteString(" sort by ")
		for i, x := range so {
			m := x.(map[string]any)
			if i > 0 {
				b.WriteString(", ")
			}
			b.WriteString(Sym(m["sym"]))
			if m["asc"] != true {
				b.WriteString(" desc")
			} else if i%2 == 1 {
				b.WriteString(" asc")
			}
		}
	}
	if sk := int(q["skip"].(float64)); sk != NoVal {
		b.WriteString(fmt.Sprintf(" skip %d", sk))
	}
	switch li := int(q["limit"].(float64)); li {
	case NoVal:
	case NoneLimit:
		b.WriteString(" limit none")
	default:
		b.WriteString(fmt.Sprintf(" limit %d", li))
	}
	return b.String()
}
