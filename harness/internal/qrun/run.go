package qrun

import (
	"fmt"
	"os"
	"path/filepath"
	"sort"
	"strings"
	"time"

	"github.com/openziti/storage/ast"
	"github.com/openziti/storage/boltz"
	"github.com/openziti/storage/objectz"
	"go.etcd.io/bbolt"
	"verif/harness/internal/qschema"
)

// Case is one line printed by QueryCases.tla
type Case struct {
	Ds    string         `json:"ds"`
	Q     map[string]any `json:"q"`
	Ids   []string       `json:"ids"`
	Count int            `json:"count"`
	Syms  []any          `json:"syms"`
	// the answer the plain child store has to give: the same query over the rows that have child data
	KidIds   []string `json:"kidIds"`
	KidCount int      `json:"kidCount"`
}

type Mismatch struct {
	Case   int      `json:"case"`
	Ds     string   `json:"ds"`
	Query  string   `json:"query"`
	Path   string   `json:"path"`
	Kind   string   `json:"kind"` // ids | order | count | error | panic
	Want   []string `json:"want"`
	Got    []string `json:"got"`
	WantN  int      `json:"want_count"`
	GotN   int64    `json:"got_count"`
	Err    string   `json:"err,omitempty"`
	Owners string   `json:"owners"`
	Sig    string   `json:"sig"`
}

// Env is one loaded dataset
type Env struct {
	Db      *boltz.DbImpl
	St      *qschema.Store
	Names   map[string]string // model id -> real id
	Back    map[string]string
	ChildOf map[string]bool
	Obj     *objectz.ObjectStore[*qschema.Item]
	path    string
}

type sliceIter struct {
	items []*qschema.Item
	i     int
}

func (s *sliceIter) IsValid() bool { return s.i < len(s.items) }
func (s *sliceIter) Next()         { s.i++ }
func (s *sliceIter) Current() *qschema.Item {
	if s.i < len(s.items) {
		return s.items[s.i]
	}
	return nil
}

func NewEnv(dir string, ds map[string]any) (*Env, error) {
	path := filepath.Join(dir, "q-"+ds["name"].(string)+".bolt")
	_ = os.Remove(path)
	db, err := boltz.Open(path, "q")
	if err != nil {
		return nil, err
	}
	env := &Env{Db: db, St: qschema.New(), path: path, Back: map[string]string{}, ChildOf: map[string]bool{}}
	if err = env.St.Init(db); err != nil {
		return nil, err
	}
	// every second row (in id order of the model ids) also has child data
	rows, _ := ds["row"].(map[string]any)
	var ids []string
	for id := range rows {
		ids = append(ids, id)
	}
	sort.Strings(ids)
	for i, id := range ids {
		env.ChildOf[id] = i%2 == 0
	}
	env.Names, err = env.St.Load(db, ds, func(id string) bool { return env.ChildOf[id] })
	if err != nil {
		return nil, err
	}
	for m, r := range env.Names {
		env.Back[r] = m
	}
	// the in-memory object store over the same field values (C19)
	var items []*qschema.Item
	_ = db.View(func(tx *bbolt.Tx) error {
		for _, id := range ids {
			it, _, _ := env.St.FindById(tx, env.Names[id])
			items = append(items, it)
		}
		return nil
	})
	// an instant is an instant in whichever zone it is expressed: every second object holds its time in another zone
	for i, it := range items {
		if it != nil && it.T != nil && i%2 == 1 {
			tt := it.T.In(time.FixedZone("", 2*3600))
			it.T = &tt
		}
	}
	// arrival order must not matter: reverse
	for i, j := 0, len(items)-1; i < j; i, j = i+1, j-1 {
		items[i], items[j] = items[j], items[i]
	}
	obj := objectz.NewObjectStore[*qschema.Item](func() objectz.ObjectIterator[*qschema.Item] { return &sliceIter{items: items} })
	obj.AddStringSymbol("id", func(e *qschema.Item) *string { return &e.Id })
	obj.AddStringSymbol("s", func(e *qschema.Item) *string { return e.S })
	obj.AddInt64Symbol("n", func(e *qschema.Item) *int64 { return e.N })
	obj.AddInt64Symbol("m", func(e *qschema.Item) *int64 {
		if e.M == nil {
			return nil
		}
		v := int64(*e.M)
		return &v
	})
	obj.AddFloat64Symbol("f", func(e *qschema.Item) *float64 { return e.F })
	obj.AddBoolSymbol("b", func(e *qschema.Item) *bool { return e.B })
	obj.AddDatetimeSymbol("t", func(e *qschema.Item) *time.Time { return e.T })
	obj.AddStringSymbol("boss", func(e *qschema.Item) *string { return e.Boss })
	env.Obj = obj
	return env, nil
}

func (e *Env) Close() { _ = e.Db.Close(); _ = os.Remove(e.path) }

func (e *Env) model(ids []string) []string {
	out := make([]string, 0, len(ids))
	for _, id := range ids {
		if m, ok := e.Back[id]; ok {
			out = append(out, m)
		} else {
			out = append(out, "?"+id)
		}
	}
	return out
}

func sameSet(a, b []string) bool {
	if len(a) != len(b) {
		return false
	}
	x := append([]string{}, a...)
	y := append([]string{}, b...)
	sort.Strings(x)
	sort.Strings(y)
	return strings.Join(x, ",") == strings.Join(y, ",")
}

func sameSeq(a, b []string) bool { return strings.Join(a, ",") == strings.Join(b, ",") }

// shape of the predicate, for signatures
func shape(f map[string]any) string {
	switch f["k"] {
	case "atom", "anyOf", "allOf":
		a := f["a"].(map[string]any)
		s := fmt.Sprint(f["k"], ":", a["k"])
		if a["op"] != nil {
			s += ":" + a["op"].(string)
		}
		if a["neg"] == true {
			s += ":neg"
		}
		if a["ci"] == true {
			s += ":ci"
		}
		return s
	case "and", "or", "not":
		return fmt.Sprint(f["k"])
	}
	return fmt.Sprint(f["k"])
}

func onlyObjSyms(syms []any) bool {
	for _, s := range syms {
		n := Sym(s)
		switch n {
		case "id", "s", "n", "m", "f", "b", "t", "boss":
		default:
			return false
		}
	}
	return true
}

type pathResult struct {
	ids   []string
	count int64
	err   error
	pan   any
}

func guard(f func() ([]string, int64, error)) (r pathResult) {
	defer func() {
		if p := recover(); p != nil {
			r.pan = p
		}
	}()
	r.ids, r.count, r.err = f()
	return
}

// Total is the C10 mode: the case carries no expected answer; the only thing that matters is that every path returns
// (an error or an answer) without panicking
var Total bool

// Run executes one case through every path; which selects the property family the mismatches are owned by
func (e *Env) Run(idx int, c *Case) []Mismatch {
	text := Query(c.Q)
	pred := c.Q["p"].(map[string]any)
	sortSpec, _ := c.Q["sort"].([]any)
	paged := int(c.Q["skip"].(float64)) != NoVal || int(c.Q["limit"].(float64)) != NoVal
	var out []Mismatch
	add := func(path, kind string, r pathResult, want []string, wantN int, owners string) {
		m := Mismatch{Case: idx, Ds: c.Ds, Query: text, Path: path, Kind: kind, Want: want, Got: r.ids, WantN: wantN, GotN: r.count, Owners: owners,
			Sig: path + ":" + kind + ":" + shape(pred)}
		if r.err != nil {
			m.Err = r.err.Error()
		}
		if r.pan != nil {
			m.Err = fmt.Sprint("panic: ", r.pan)
		}
		out = append(out, m)
	}
	judge := func(path string, r pathResult, want []string, wantN int, ordered bool, checkCount bool, owner string) {
		switch {
		case r.pan != nil:
			add(path, "panic", r, want, wantN, "C10,"+owner)
		case Total:
		case r.err != nil:
			add(path, "error", r, want, wantN, owner)
		default:
			got := e.model(r.ids)
			r.ids = got
			if !sameSet(got, want) {
				o := owner
				if paged || len(sortSpec) > 0 {
					o = strings.Replace(owner, "C01", "C02", 1)
				}
				add(path, "ids", r, want, wantN, o)
			} else if ordered && !sameSeq(got, want) {
				o := owner
				o = strings.Replace(owner, "C01", "C02", 1)
				add(path, "order", r, want, wantN, o)
			} else if checkCount && int(r.count) != wantN {
				o := owner
				o = strings.Replace(owner, "C01", "C02", 1)
				add(path, "count", r, want, wantN, o)
			}
		}
	}
	st := e.St
	_ = e.Db.View(func(tx *bbolt.Tx) error {
		judge("QueryIds", guard(func() ([]string, int64, error) { return st.QueryIds(tx, text) }), c.Ids, c.Count, true, true, "C01")
		var q ast.Query
		pr := guard(func() ([]string, int64, error) {
			var err error
			q, err = ast.Parse(st, text)
			return nil, 0, err
		})
		if pr.err != nil || pr.pan != nil {
			return nil // already reported by the QueryIds path
		}
		judge("QueryIdsC", guard(func() ([]string, int64, error) { return st.QueryIdsC(tx, q) }), c.Ids, c.Count, true, true, "C01")
		// a parsed query is a value: running it must not consume it (the same object once more gives the same answer)
		judge("QueryIdsC-again", guard(func() ([]string, int64, error) { return st.QueryIdsC(tx, q) }), c.Ids, c.Count, true, true, "C01")
		var q2, q3 ast.Query
		if pr2 := guard(func() ([]string, int64, error) {
			var err error
			if q2, err = ast.Parse(st, text); err == nil {
				q3, err = ast.Parse(st, text)
			}
			return nil, 0, err
		}); pr2.err != nil || pr2.pan != nil {
			// the same text parsed a moment ago: parsing it again has to give the same verdict
			judge("Parse-again", pr2, c.Ids, c.Count, false, false, "C01")
			return nil
		}
		if eb := st.GetEntitiesBucket(tx); eb != nil { // (no entities bucket in a store nothing was ever written to)
			judge("QueryWithCursorC", guard(func() ([]string, int64, error) {
				return st.QueryWithCursorC(tx, eb.OpenCursor, q2)
			}), c.Ids, c.Count, true, true, "C01")
		}
		if len(sortSpec) == 0 {
			judge("IterateIds", guard(func() ([]string, int64, error) {
				var ids []string
				for cur := st.IterateIds(tx, q3); cur.IsValid(); cur.Next() {
					ids = append(ids, string(cur.Current()))
				}
				return ids, 0, nil
			}), c.Ids, c.Count, true, false, "C01")
			if !paged {
				// the same predicate through the sorting scanner: same set, same count
				judge("SortedScan", guard(func() ([]string, int64, error) { return st.QueryIds(tx, Filter(pred)+" sort by m, f desc") }), c.Ids, c.Count, false, true, "C01")
				// ... and with as many sort fields as the engine takes, on fields that tie: the answer is a set, ties lose nobody
				judge("SortedScan", guard(func() ([]string, int64, error) {
					return st.QueryIds(tx, Filter(pred)+" sort by b, b desc, b, b desc, b")
				}), c.Ids, c.Count, false, true, "C01")
			}
		}
		// through the extended child store: every parent row is visible; through the plain child store: the rows with child data --
		// the same order, paging and total count (the child stores are query paths like any other: C01 / C02 own them too)
		childOwner := "C15,C01"
		judge("ChildExt", guard(func() ([]string, int64, error) { return st.ChildExt.QueryIds(tx, text) }), c.Ids, c.Count, true, true, childOwner)
		judge("Child", guard(func() ([]string, int64, error) { return st.Child.QueryIds(tx, text) }), c.KidIds, c.KidCount, true, true, childOwner)
		return nil
	})
	// a sub-query over `kids` is a query of the plain child store: what it returns is also C15's statement
	if strings.Contains(text, "kids") {
		for i := range out {
			if !strings.Contains(out[i].Owners, "C15") {
				out[i].Owners += ",C15"
			}
		}
	}
	if onlyObjSyms(c.Syms) && !Total {
		judge("objectz", guard(func() ([]string, int64, error) {
			items, n, err := e.Obj.QueryEntities(text)
			var ids []string
			for _, it := range items {
				ids = append(ids, it.Id)
			}
			return ids, n, err
		}), c.Ids, c.Count, true, true, "C19")
	}
	return out
}
