// Package qschema is the store the query properties (C01 C02 C19 C20) are checked on: one root store
// `items` with a field of every scalar type (each nullable), a string set, a self foreign key, a
// self link set and a tag map, plus a child store `xitems`; Query.tla talks about exactly these symbols.
package qschema

import (
	"fmt"
	"math"
	"sort"
	"time"

	"github.com/openziti/foundation/v2/errorz"
	"github.com/openziti/storage/ast"
	"github.com/openziti/storage/boltz"
	"go.etcd.io/bbolt"
)

const Type = "items"

// Alphabet maps the code units of Query.tla (1..19) to bytes; unit order = byte order.
const Alphabet = " \"-.0123456789AB\\ab"

func Str(units []any) string {
	b := make([]byte, 0, len(units))
	for _, u := range units {
		b = append(b, Alphabet[int(u.(float64))-1])
	}
	return string(b)
}

// Base is the instant of datetime rank 0; rank k = Base + k hours.
var Base = time.Date(2021, 3, 4, 5, 0, 0, 0, time.UTC)

// (rank -1000 and below: the zero time.Time{} -- a stored value like any other, not null)
func Date(rank int) time.Time {
	if rank <= -1000 {
		return time.Time{}
	}
	if rank >= 1000 { // "never": beyond the range of int64 nanoseconds since 1970
		return time.Date(9999, 12, 31, 23, 59, 59, 0, time.UTC)
	}
	return Base.Add(time.Duration(rank) * time.Hour)
}

type Item struct {
	boltz.BaseExtEntity
	S      *string
	N      *int64
	M      *int32
	F      *float64
	B      *bool
	T      *time.Time
	Roles  []string
	Boss   *string
	Peers  []string
	Places []string
	X      *string // child part (xitems), when present
}

// Place is the second entity type: the elements of the link set items.places (dotted symbols that cross entity types)
type Place struct {
	boltz.BaseExtEntity
	S *string
}

func (e *Place) GetEntityType() string { return "places" }

type placeStrategy struct{}

func (placeStrategy) NewEntity() *Place { return &Place{} }
func (placeStrategy) FillEntity(e *Place, b *boltz.TypedBucket) {
	e.LoadBaseValues(b)
	e.S = b.GetString("s")
}
func (placeStrategy) PersistEntity(e *Place, ctx *boltz.PersistContext) {
	e.SetBaseValues(ctx)
	ctx.SetStringP("s", e.S)
}

func (e *Item) GetEntityType() string { return Type }

type strategy struct{}

func (strategy) NewEntity() *Item { return &Item{} }
func (strategy) FillEntity(e *Item, b *boltz.TypedBucket) {
	e.LoadBaseValues(b)
	e.S = b.GetString("s")
	e.N = b.GetInt64("n")
	e.M = b.GetInt32("m")
	e.F = b.GetFloat64("f")
	e.B = b.GetBool("b")
	e.T = b.GetTime("t")
	e.Roles = b.GetStringList("roles")
	e.Boss = b.GetString("boss")
	e.Peers = b.GetStringList("peers")
}
func (strategy) PersistEntity(e *Item, ctx *boltz.PersistContext) {
	e.SetBaseValues(ctx)
	b := ctx.Bucket
	ctx.SetStringP("s", e.S)
	if e.N != nil {
		ctx.SetInt64("n", *e.N)
	} else {
		b.SetNil("n")
	}
	if e.M != nil {
		ctx.SetInt32("m", *e.M)
	} else {
		b.SetNil("m")
	}
	if e.F != nil {
		b.SetFloat64("f", *e.F, ctx.FieldChecker)
	} else {
		b.SetNil("f")
	}
	if e.B != nil {
		ctx.SetBool("b", *e.B)
	} else {
		b.SetNil("b")
	}
	ctx.SetTimeP("t", e.T)
	lbl := map[string]interface{}{}
	for k, v := range e.Tags {
		if sv, ok := v.(string); ok {
			lbl[k] = sv
		}
	}
	ctx.SetMap("lbl", lbl)
	ctx.SetStringList("roles", e.Roles)
	ctx.SetStringP("boss", e.Boss)
	ctx.SetLinkedIds("peers", e.Peers)
	ctx.SetLinkedIds("places", e.Places)
	ctx.SetStringList("kids", e.Peers) // the same ids once more, under a symbol whose linked type is the child store
}

type XItem struct {
	Item
	Xv string
}

type xstrategy struct{ parent *Store }

func (s *xstrategy) NewEntity() *XItem { return &XItem{} }
func (s *xstrategy) FillEntity(e *XItem, b *boltz.TypedBucket) {
	_, err := s.parent.LoadEntity(b.Tx(), e.Id, &e.Item)
	b.SetError(err)
	e.Xv = b.GetStringWithDefault("xv", "")
}
func (s *xstrategy) PersistEntity(e *XItem, ctx *boltz.PersistContext) {
	s.parent.GetEntityStrategy().PersistEntity(&e.Item, ctx.GetParentContext())
	ctx.SetString("xv", e.Xv)
}

type Store struct {
	*boltz.BaseStore[*Item]
	Child    *boltz.BaseStore[*XItem]
	ChildExt *boltz.BaseStore[*XItem]
	Links    boltz.LinkCollection
	Places   *boltz.BaseStore[*Place]
}

func New() *Store { return NewPublic(nil) }

// NewPublic builds the store with the given publicity of its symbols (C20).  pub == nil: the defaults of the Add* calls.
// Through the public API `id` and the fk symbol `boss` are always public; every other symbol -- scalar, set, the tag map
// and any dotted symbol -- is public exactly when pub says so.
func NewPublic(pub func(name string) bool) *Store {
	st := &Store{BaseStore: boltz.NewBaseStore(boltz.StoreDefinition[*Item]{
		EntityType:      Type,
		EntityStrategy:  strategy{},
		BasePath:        []string{"q"},
		EntityNotFoundF: func(id string) error { return boltz.NewNotFoundError(Type, "id", id) },
	})}
	st.InitImpl(st)
	scalar := func(name string, t ast.NodeType) {
		if pub == nil || pub(name) {
			st.AddSymbol(name, t)
		} else {
			st.AddEntitySymbol(st.NewEntitySymbol(name, t))
		}
	}
	// a map declared with a concrete element type (the string-valued entries of tags once more), and a field of a type the query
	// language has no operations for
	st.AddMapSymbol("lbl", ast.NodeTypeString, "lbl")
	if pub != nil && pub("lbl") {
		st.MakeSymbolPublic("lbl")
	}
	scalar("blob", ast.NodeTypeOther)
	if pub == nil {
		st.AddExtEntitySymbols() // id createdAt updatedAt tags isSystem
	} else {
		st.AddIdSymbol("id", ast.NodeTypeString)
		st.AddMapSymbol("tags", ast.NodeTypeAnyType, "tags")
		if pub("tags") {
			st.MakeSymbolPublic("tags")
		}
	}
	scalar("s", ast.NodeTypeString)
	scalar("n", ast.NodeTypeInt64)
	scalar("m", ast.NodeTypeInt64)
	scalar("f", ast.NodeTypeFloat64)
	scalar("b", ast.NodeTypeBool)
	scalar("t", ast.NodeTypeDatetime)
	st.AddSetSymbol("roles", ast.NodeTypeString)
	boss := st.AddFkSymbol("boss", st)
	_ = boss
	peers := st.AddFkSetSymbol("peers", st)
	peerOf := st.AddFkSetSymbol("peerOf", st)
	st.Links = st.AddLinkCollection(peers, peerOf)
	_ = st.AddLinkCollection(peerOf, peers)
	// the second entity type and the link set leading to it
	st.Places = boltz.NewBaseStore(boltz.StoreDefinition[*Place]{
		EntityType:      "places",
		EntityStrategy:  placeStrategy{},
		BasePath:        []string{"q"},
		EntityNotFoundF: func(id string) error { return boltz.NewNotFoundError("places", "id", id) },
	})
	st.Places.InitImpl(st.Places)
	if pub == nil {
		st.Places.AddExtEntitySymbols()
	} else {
		st.Places.AddIdSymbol("id", ast.NodeTypeString)
	}
	if pub == nil || pub("s") {
		st.Places.AddSymbol("s", ast.NodeTypeString)
	} else {
		st.Places.AddEntitySymbol(st.Places.NewEntitySymbol("s", ast.NodeTypeString))
	}
	places := st.AddFkSetSymbol("places", st.Places)
	placeItems := st.Places.AddFkSetSymbol("items", st)
	_ = st.AddLinkCollection(places, placeItems)
	_ = st.Places.AddLinkCollection(placeItems, places)

	mk := func(ext bool, path string) *boltz.BaseStore[*XItem] {
		c := boltz.NewBaseStore(boltz.StoreDefinition[*XItem]{
			EntityStrategy: &xstrategy{parent: st},
			BasePath:       []string{path},
			Parent:         st,
			ParentMapper: func(e boltz.Entity) boltz.Entity {
				if x, ok := e.(*XItem); ok {
					return &x.Item
				}
				return e
			},
			EntityNotFoundF: func(id string) error { return boltz.NewNotFoundError(Type, "id", id) },
		})
		c.InitImpl(c)
		if ext {
			c.Extended()
		}
		return c
	}
	st.Child = mk(false, "x")
	st.ChildExt = mk(true, "xe")
	// a set of ids whose linked type is the plain child store (sub-queries over it are queries of the child store)
	st.AddFkSetSymbol("kids", st.Child)
	for _, c := range []*boltz.BaseStore[*XItem]{st.Child, st.ChildExt} {
		st.GrantSymbols(c)
		c.AddSymbol("xv", ast.NodeTypeString)
	}
	if pub != nil {
		for _, name := range []string{"roles", "peers", "places", "kids"} {
			if pub(name) {
				st.MakeSymbolPublic(name)
			}
		}
	}
	return st
}

// Publish marks a dotted symbol public (the composite must resolve)
func (st *Store) Publish(name string) { st.MakeSymbolPublic(name) }

func (st *Store) Init(db boltz.Db) error {
	return db.Update(nil, func(ctx boltz.MutateContext) error {
		h := &errorz.ErrorHolderImpl{}
		st.InitializeIndexes(ctx.Tx(), h)
		st.Places.InitializeIndexes(ctx.Tx(), h)
		return h.GetError()
	})
}

// Typed value of Query.tla as decoded JSON: {"t": "s"|"n"|"f"|"b"|"d"|"nil", "v": ...}
type TV map[string]any

func (v TV) Kind() string { k, _ := v["t"].(string); return k }

func num2(v any) int64 { return int64(v.(float64)) }

// Go value of a typed value (nil for Nil)
func (v TV) Go() any {
	switch v.Kind() {
	case "s":
		return Str(v["v"].([]any))
	case "n":
		// (the model's +-1000000 stand for the ends of the int64 range, the values next to them for the values next to those; the mapping is monotone)
		switch n := num2(v["v"]) / 2; {
		case n >= 999000:
			return int64(math.MaxInt64) - (1000000 - n)
		case n <= -999000:
			return int64(math.MinInt64) + (n + 1000000)
		default:
			return n
		}
	case "f":
		return float64(num2(v["v"])) / 2
	case "b":
		return v["v"].(bool)
	case "d":
		return Date(int(num2(v["v"])))
	}
	return nil
}

// Load writes a dataset of Query.tla through the store API (items with field values, link sets, tags).
// rows: id -> row record; names: id -> unit sequence.  withChild: ids that also get child data.
func (st *Store) Load(db boltz.Db, ds map[string]any, childOf func(id string) bool) (map[string]string, error) {
	names := map[string]string{} // model id -> real id
	rows, _ := ds["row"].(map[string]any)
	nm, _ := ds["names"].(map[string]any)
	for id, u := range nm {
		names[id] = Str(u.([]any))
	}
	pl, _ := ds["pl"].(map[string]any)
	plRows, _ := pl["row"].(map[string]any)
	plOf, _ := pl["of"].(map[string]any)
	if pn, ok := pl["names"].(map[string]any); ok {
		for id, u := range pn {
			names[id] = Str(u.([]any))
		}
	}
	ids := make([]string, 0, len(rows))
	for id := range rows {
		ids = append(ids, id)
	}
	sort.Strings(ids)
	mkItem := func(id string, withRefs bool) *Item {
		r := rows[id].(map[string]any)
		e := &Item{}
		e.Id = names[id]
		tv := func(k string) TV { m, _ := r[k].(map[string]any); return TV(m) }
		if x := tv("s").Go(); x != nil {
			s := x.(string)
			e.S = &s
		}
		if x := tv("n").Go(); x != nil {
			n := x.(int64)
			e.N = &n
		}
		if x := tv("m").Go(); x != nil {
			n := int32(x.(int64))
			e.M = &n
		}
		if x := tv("f").Go(); x != nil {
			f := x.(float64)
			e.F = &f
		}
		if x := tv("b").Go(); x != nil {
			b := x.(bool)
			e.B = &b
		}
		if x := tv("t").Go(); x != nil {
			t := x.(time.Time)
			e.T = &t
		}
		if rs, ok := r["roles"].([]any); ok {
			for _, x := range rs {
				e.Roles = append(e.Roles, Str(x.([]any)))
			}
		}
		tags := map[string]interface{}{}
		if tg, ok := r["tags"].(map[string]any); ok {
			for k, x := range tg {
				m, _ := x.(map[string]any)
				if TV(m).Kind() == "nil" {
					tags[k] = nil
				} else {
					tags[k] = TV(m).Go()
				}
			}
		}
		e.Tags = tags
		if withRefs {
			if b, _ := r["boss"].(string); b != "" {
				real := names[b]
				e.Boss = &real
			}
			if ps, ok := r["peers"].([]any); ok {
				for _, p := range ps {
					e.Peers = append(e.Peers, names[p.(string)])
				}
			}
			if ps, ok := plOf[id].([]any); ok {
				for _, p := range ps {
					e.Places = append(e.Places, names[p.(string)])
				}
			}
		}
		return e
	}
	err := db.Update(nil, func(ctx boltz.MutateContext) error {
		// first all rows without references, then the references (targets must exist)
		for _, id := range ids {
			e := mkItem(id, false)
			var err error
			if childOf != nil && childOf(id) {
				err = st.Child.Create(ctx, &XItem{Item: *e, Xv: "x-" + e.Id})
				if err == nil {
					// the extended child store keeps its own child data for the same ids
					b := st.ChildExt.GetEntitiesBucket(ctx.Tx()).GetBucket(e.Id)
					b.GetOrCreatePath("xe").SetString("xv", "xe-"+e.Id, nil)
					err = b.GetError()
				}
			} else {
				err = st.Create(ctx, e)
			}
			if err != nil {
				return fmt.Errorf("create %s: %w", id, err)
			}
		}
		for pid, r := range plRows {
			p := &Place{}
			p.Id = names[pid]
			m, _ := r.(map[string]any)
			sv, _ := m["s"].(map[string]any)
			if x := TV(sv).Go(); x != nil {
				s := x.(string)
				p.S = &s
			}
			if err := st.Places.Create(ctx, p); err != nil {
				return fmt.Errorf("create place %s: %w", pid, err)
			}
		}
		for _, id := range ids {
			e := mkItem(id, true)
			if err := st.Update(ctx, e, boltz.MapFieldChecker{"boss": struct{}{}, "peers": struct{}{}, "places": struct{}{}, "kids": struct{}{}}); err != nil {
				return fmt.Errorf("link %s: %w", id, err)
			}
		}
		// an empty set is stored either as an empty bucket or as no bucket at all (a field that was never written):
		// every other row with an empty set loses the bucket
		k := 0
		for _, id := range ids {
			eb := st.GetEntityBucket(ctx.Tx(), []byte(names[id]))
			for _, set := range []string{"roles", "peers", "places", "kids"} {
				if sb := eb.GetBucket(set); sb != nil {
					if key, _ := sb.Cursor().First(); key == nil {
						if k%2 == 0 {
							if err := eb.DeleteBucket([]byte(set)); err != nil {
								return err
							}
						}
						k++
					}
				}
			}
		}
		return nil
	})
	return names, err
}

var _ = bbolt.ErrBucketNotFound
