// Package schema is the verification schema: the stores the harness instantiates from the real
// library through its public API (DESIGN.md 2.4). Store.tla has exactly these fields and switches.
package schema

import (
	"fmt"

	"github.com/openziti/foundation/v2/errorz"
	"github.com/openziti/storage/ast"
	"github.com/openziti/storage/boltz"
	"go.etcd.io/bbolt"
)

const (
	TypePeople = "people"
	TypeTeams  = "teams"

	FName = "name"
	FNick = "nick"
	// the stored keys of nick and boss differ from the names of their symbols (AddSymbolWithKey / AddFkSymbolWithKey): field
	// checkers and raw corruption talk about keys, queries and indexes about symbols
	KNick       = "nickname"
	KBoss       = "bossId"
	FRoles      = "roles"
	FBoss       = "boss"
	FTeam       = "team"
	FRep        = "reports"    // back-reference set of boss on people
	FTRep       = "tmembers"   // back-reference set of team on teams
	FTeams      = "teams"      // link set people -> teams
	FMemb       = "members"    // link set teams -> people
	FSvc        = "svc"        // ref counted people -> teams
	FUsers      = "users"      // ref counted teams -> people
	FChief      = "chief"      // fk teams -> staff (child store)
	FChiefOf    = "chiefOf"    // its back-reference set, on staff
	FSquads     = "squads"     // link set staff -> teams
	FSquadStaff = "squadStaff" // link set teams -> staff
	FLead       = "lead"
	FGrade      = "grade"
	ExtPath     = "ext"
)

// Config mirrors the CONSTANTS of Store.tla that change how the stores are wired.
type Config struct {
	BossMode       string `json:"bossMode"` // off | idxNull | idxCascade | conNoneNull | conCascadeNull
	TeamMode       string `json:"teamMode"` // off | idx | idxNull | idxCascade | conNone | conNoneNull | conCascade | conCascadeNull
	ChildExtended  bool   `json:"childExtended"`
	LinksViaEntity bool   `json:"linksViaEntity"` // people.teams also persisted through PersistEntity/SetLinkedIds
	// constraints and link sets registered on the child store: teams.chief -> staff (nullable fk index, back-references in
	// staff.chiefOf) and the link collection staff.squads <-> teams.squadStaff
	ChildFeatures bool `json:"childFeatures"`
	// the system-entity constraint is registered on the child store only
	SysOnChild bool `json:"sysOnChild"`
}

type Person struct {
	boltz.BaseExtEntity
	Name  string
	Nick  *string
	Roles []string
	Boss  *string
	Team  *string
	Teams []string
	// Labels, when set, is written as a nested map below the sub-bucket "meta" (a map symbol with a path prefix)
	Labels map[string]interface{}
}

func (e *Person) GetEntityType() string { return TypePeople }

type Staff struct {
	Person
	Lead  bool
	Grade string
}

type Team struct {
	Id    string
	Chief *string // (ChildFeatures)
}

func (e *Team) GetId() string         { return e.Id }
func (e *Team) SetId(id string)       { e.Id = id }
func (e *Team) GetEntityType() string { return TypeTeams }

type personStrategy struct{ cfg *Config }

func (s personStrategy) NewEntity() *Person { return &Person{} }

func (s personStrategy) FillEntity(e *Person, b *boltz.TypedBucket) {
	e.LoadBaseValues(b)
	e.Name = b.GetStringWithDefault(FName, "")
	e.Nick = b.GetString(KNick)
	e.Roles = b.GetStringList(FRoles)
	e.Boss = b.GetString(KBoss)
	e.Team = b.GetString(FTeam)
	e.Teams = b.GetStringList(FTeams)
}

func (s personStrategy) PersistEntity(e *Person, ctx *boltz.PersistContext) {
	e.SetBaseValues(ctx)
	ctx.SetRequiredString(FName, e.Name) // (the usual way to write a name field)
	if e.Labels != nil {
		ctx.Bucket.GetOrCreatePath("meta").PutMap("labels", e.Labels, ctx.FieldChecker, true)
	}
	ctx.SetStringP(KNick, e.Nick)
	ctx.SetStringList(FRoles, e.Roles)
	ctx.SetStringP(KBoss, e.Boss)
	ctx.SetStringP(FTeam, e.Team)
	if s.cfg.LinksViaEntity {
		ctx.SetLinkedIds(FTeams, e.Teams)
	}
}

type staffStrategy struct{ people *PeopleStore }

func (s *staffStrategy) NewEntity() *Staff { return &Staff{} }

func (s *staffStrategy) FillEntity(e *Staff, b *boltz.TypedBucket) {
	_, err := s.people.LoadEntity(b.Tx(), e.Id, &e.Person)
	b.SetError(err)
	e.Lead = b.GetBoolWithDefault(FLead, false)
	e.Grade = b.GetStringWithDefault(FGrade, "")
}

// KGradeInChecker is the name a field checker has to use for the child field `grade` (the strategy renames it for the checker:
// PersistContext.WithFieldOverrides); every other field goes by its stored key
const KGradeInChecker = "level"

func (s *staffStrategy) PersistEntity(e *Staff, ctx *boltz.PersistContext) {
	ctx.WithFieldOverrides(map[string]string{FGrade: KGradeInChecker})
	s.people.GetEntityStrategy().PersistEntity(&e.Person, ctx.GetParentContext())
	ctx.SetBool(FLead, e.Lead)
	ctx.SetString(FGrade, e.Grade)
}

type teamStrategy struct{ cfg *Config }

func (teamStrategy) NewEntity() *Team { return &Team{} }
func (s teamStrategy) FillEntity(e *Team, b *boltz.TypedBucket) {
	if s.cfg.ChildFeatures {
		e.Chief = b.GetString(FChief)
	}
}
func (s teamStrategy) PersistEntity(e *Team, ctx *boltz.PersistContext) {
	if s.cfg.ChildFeatures {
		ctx.SetStringP(FChief, e.Chief)
	}
}

type PeopleStore struct {
	*boltz.BaseStore[*Person]
	IdxName  boltz.ReadIndex
	IdxNick  boltz.ReadIndex
	IdxRoles boltz.SetReadIndex
	SymRoles boltz.EntitySetSymbol
	SymTeams boltz.EntitySetSymbol
	SymSvc   boltz.EntitySetSymbol
	SymRep   boltz.EntitySetSymbol
	Links    boltz.LinkCollection
	Rc       boltz.RefCountedLinkCollection
}

type StaffStore struct {
	*boltz.BaseStore[*Staff]
	IdxGrade  boltz.ReadIndex
	SymSquads boltz.EntitySetSymbol
	Squads    boltz.LinkCollection // staff.squads <-> teams.squadStaff (ChildFeatures)
}

type TeamStore struct {
	*boltz.BaseStore[*Team]
	SymMembers    boltz.EntitySetSymbol
	SymUsers      boltz.EntitySetSymbol
	SymTRep       boltz.EntitySetSymbol
	Links         boltz.LinkCollection
	Rc            boltz.RefCountedLinkCollection
	SymSquadStaff boltz.EntitySetSymbol
	Squads        boltz.LinkCollection // teams.squadStaff <-> staff.squads (ChildFeatures)
}

// SetChange is one invocation of the set-index change listener on roles.
type SetChange struct {
	Id  string
	Old []string
	New []string
}

type Stores struct {
	Cfg    Config
	People *PeopleStore
	Staff  *StaffStore
	// Interns is a second child store of People that stays empty (see New)
	Interns *StaffStore
	// Alumni is a third, equally empty child store registered after Staff
	Alumni *StaffStore
	Teams  *TeamStore
	// OnSetChange, when non-nil, receives set-index listener invocations
	OnSetChange func(SetChange)
}

func New(cfg Config) *Stores {
	s := &Stores{Cfg: cfg}
	// one base path value for both top-level stores, with room to grow: a store that derives longer paths from it (index buckets,
	// child stores) has to copy it first
	base := make([]string, 1, 8)
	base[0] = "stores"

	people := &PeopleStore{BaseStore: boltz.NewBaseStore(boltz.StoreDefinition[*Person]{
		EntityType:     TypePeople,
		EntityStrategy: personStrategy{cfg: &s.Cfg},
		BasePath:       base,
		EntityNotFoundF: func(id string) error {
			return boltz.NewNotFoundError(TypePeople, "id", id)
		},
	})}
	people.InitImpl(people)
	s.People = people

	teams := &TeamStore{BaseStore: boltz.NewBaseStore(boltz.StoreDefinition[*Team]{
		EntityType:     TypeTeams,
		EntityStrategy: teamStrategy{cfg: &s.Cfg},
		BasePath:       base,
		EntityNotFoundF: func(id string) error {
			return boltz.NewNotFoundError(TypeTeams, "id", id)
		},
	})}
	teams.InitImpl(teams)
	s.Teams = teams

	staff := &StaffStore{BaseStore: boltz.NewBaseStore(boltz.StoreDefinition[*Staff]{
		EntityStrategy: &staffStrategy{people: people},
		BasePath:       []string{ExtPath},
		Parent:         people,
		ParentMapper: func(e boltz.Entity) boltz.Entity {
			if st, ok := e.(*Staff); ok {
				return &st.Person
			}
			return e
		},
		EntityNotFoundF: func(id string) error {
			return boltz.NewNotFoundError(people.GetSingularEntityType(), "id", id)
		},
	})}
	staff.InitImpl(staff)
	if cfg.ChildExtended {
		staff.Extended()
	}
	s.Staff = staff

	// child stores of people that never hold an entity, one registered *before* staff and one after it: whatever walks the
	// child stores of an entity (update hand-over, delete, events) has to get past child stores the entity does not belong to,
	// and every registration stays in effect
	emptyChild := func(path string) *StaffStore {
		c := &StaffStore{BaseStore: boltz.NewBaseStore(boltz.StoreDefinition[*Staff]{
			EntityStrategy: &staffStrategy{people: people},
			BasePath:       []string{path},
			Parent:         people,
			ParentMapper: func(e boltz.Entity) boltz.Entity {
				if st, ok := e.(*Staff); ok {
					return &st.Person
				}
				return e
			},
			EntityNotFoundF: func(id string) error {
				return boltz.NewNotFoundError(people.GetSingularEntityType(), "id", id)
			},
		})}
		c.InitImpl(c)
		people.RegisterChildStoreStrategy(&boltz.ChildStoreUpdateHandler[*Person, *Staff]{
			Store: c,
			Mapper: func(ctx boltz.MutateContext, parent *Person) (*Staff, bool) {
				if !c.IsEntityPresent(ctx.Tx(), parent.Id) {
					return nil, false
				}
				st, found, _ := c.BaseStore.FindById(ctx.Tx(), parent.Id)
				if !found || st == nil {
					return nil, false
				}
				st.Person = *parent
				return st, true
			},
		})
		return c
	}
	s.Interns = emptyChild("intern")

	people.RegisterChildStoreStrategy(&boltz.ChildStoreUpdateHandler[*Person, *Staff]{
		Store: staff,
		Mapper: func(ctx boltz.MutateContext, parent *Person) (*Staff, bool) {
			// the way ziti's edge stores do it: child data present => load the child and copy the parent's fields over
			if !staff.IsEntityPresent(ctx.Tx(), parent.Id) {
				return nil, false
			}
			st, found, _ := staff.BaseStore.FindById(ctx.Tx(), parent.Id)
			if !found || st == nil {
				return nil, false
			}
			st.Person = *parent
			return st, true
		},
	})

	s.Alumni = emptyChild("alumni")

	// ---- people: local symbols and constraints, in the registration order Store.tla mirrors
	people.AddExtEntitySymbols()
	symName := people.AddSymbol(FName, ast.NodeTypeString)
	people.IdxName = people.AddUniqueIndex(symName)
	symNick := people.AddSymbolWithKey(FNick, ast.NodeTypeString, KNick)
	people.IdxNick = people.AddNullableUniqueIndex(symNick)
	people.SymRoles = people.AddSetSymbol(FRoles, ast.NodeTypeString)
	people.IdxRoles = people.AddSetIndex(people.SymRoles)
	people.IdxRoles.AddListener(func(ctx boltz.MutateContext, rowId []byte, old []boltz.FieldTypeAndValue, new []boltz.FieldTypeAndValue, holder errorz.ErrorHolder) {
		if s.OnSetChange != nil {
			sc := SetChange{Id: string(rowId)}
			for _, v := range old {
				sc.Old = append(sc.Old, string(v.Value))
			}
			for _, v := range new {
				sc.New = append(sc.New, string(v.Value))
			}
			s.OnSetChange(sc)
		}
	})

	symBoss := people.AddFkSymbolWithKey(FBoss, KBoss, people)
	people.SymRep = people.AddFkSetSymbol(FRep, people)
	switch cfg.BossMode {
	case "off", "":
	case "idxNull":
		people.AddNullableFkIndex(symBoss, people.SymRep)
	case "conNoneNull":
		people.AddFkConstraint(symBoss, true, boltz.CascadeNone)
	case "conCascadeNull":
		people.AddFkConstraint(symBoss, true, boltz.CascadeDelete)
	case "idxCascade":
		people.AddFkIndexCascadeDelete(symBoss, people.SymRep) // (not nullable: the first person is its own boss)
	default:
		panic(fmt.Sprintf("bad bossMode %q", cfg.BossMode))
	}

	teams.AddIdSymbol("id", ast.NodeTypeString)
	symTeam := people.AddFkSymbol(FTeam, teams)
	teams.SymTRep = teams.AddFkSetSymbol(FTRep, people)
	switch cfg.TeamMode {
	case "off", "":
	case "idx":
		people.AddFkIndex(symTeam, teams.SymTRep)
	case "idxNull":
		people.AddNullableFkIndex(symTeam, teams.SymTRep)
	case "idxCascade":
		people.AddFkIndexCascadeDelete(symTeam, teams.SymTRep)
	case "conNone":
		people.AddFkConstraint(symTeam, false, boltz.CascadeNone)
	case "conNoneNull":
		people.AddFkConstraint(symTeam, true, boltz.CascadeNone)
	case "conCascade":
		people.AddFkConstraint(symTeam, false, boltz.CascadeDelete)
	case "conCascadeNull":
		people.AddFkConstraint(symTeam, true, boltz.CascadeDelete)
	default:
		panic(fmt.Sprintf("bad teamMode %q", cfg.TeamMode))
	}
	if !cfg.SysOnChild {
		people.AddConstraint(boltz.NewSystemEntityEnforcementConstraint(people))
	}
	// a map symbol below a path prefix; the prefix slice has room to grow (element symbols must not share it)
	labelsPrefix := make([]string, 1, 8)
	labelsPrefix[0] = "meta"
	people.AddMapSymbol("labels", ast.NodeTypeAnyType, "labels", labelsPrefix...)
	// symbols computed by the application (not stored): the first id in id order / the id once more
	people.AddEntitySymbol(boltz.NewBoolFuncSymbol(people, "isFirst", func(id string) bool { return id == "p1" }))
	people.AddEntitySymbol(boltz.NewStringFuncSymbol(people, "idAgain", func(id string) *string { return &id }))

	people.SymTeams = people.AddFkSetSymbol(FTeams, teams)
	people.SymSvc = people.AddFkSetSymbol(FSvc, teams)
	teams.SymMembers = teams.AddFkSetSymbol(FMemb, people)
	teams.SymUsers = teams.AddFkSetSymbol(FUsers, people)

	// ---- staff
	people.GrantSymbols(staff)
	people.GrantSymbols(s.Interns)
	people.GrantSymbols(s.Alumni)
	if cfg.SysOnChild {
		staff.AddConstraint(boltz.NewSystemEntityEnforcementConstraint(staff)) // the constraint guards what the child store handles, nothing else
	}
	staff.AddSymbol(FLead, ast.NodeTypeBool)
	symGrade := staff.AddSymbol(FGrade, ast.NodeTypeString)
	staff.IdxGrade = staff.AddUniqueIndex(symGrade)

	if cfg.ChildFeatures {
		symChiefOf := staff.AddFkSetSymbol(FChiefOf, teams)
		symChief := teams.AddFkSymbol(FChief, staff)
		teams.AddNullableFkIndex(symChief, symChiefOf)
		staff.SymSquads = staff.AddFkSetSymbol(FSquads, teams)
		teams.SymSquadStaff = teams.AddFkSetSymbol(FSquadStaff, staff)
		staff.Squads = staff.AddLinkCollection(staff.SymSquads, teams.SymSquadStaff)
		teams.Squads = teams.AddLinkCollection(teams.SymSquadStaff, staff.SymSquads)
	}

	// ---- links
	people.Links = people.AddLinkCollection(people.SymTeams, teams.SymMembers)
	teams.Links = teams.AddLinkCollection(teams.SymMembers, people.SymTeams)
	people.Rc = people.AddRefCountedLinkCollection(people.SymSvc, teams.SymUsers)
	teams.Rc = teams.AddRefCountedLinkCollection(teams.SymUsers, people.SymSvc)
	return s
}

// Init creates the static index buckets (what a ziti application does at start-up).
func (s *Stores) Init(db boltz.Db) error {
	return db.Update(nil, func(ctx boltz.MutateContext) error {
		holder := &errorz.ErrorHolderImpl{}
		s.People.InitializeIndexes(ctx.Tx(), holder)
		s.Staff.InitializeIndexes(ctx.Tx(), holder)
		s.Teams.InitializeIndexes(ctx.Tx(), holder)
		return holder.GetError()
	})
}

// AllStores lists the stores in the order integrity checks are run.
func (s *Stores) AllStores() []boltz.Store {
	return []boltz.Store{s.People, s.Staff, s.Teams}
}

var _ = bbolt.ErrBucketNotFound
