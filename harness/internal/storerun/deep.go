package storerun

import (
	"fmt"
	"sort"
	"strings"

	"github.com/openziti/storage/ast"
	"github.com/openziti/storage/boltz"
	"go.etcd.io/bbolt"
	"verif/harness/internal/project"
	"verif/harness/internal/schema"
)

// apiFacts is the second, independent observation: the same abstract state read through the
// library's read API (FindById through every store, index reads, related-entity lists, link API)
// instead of the raw file.  It is compared with the same model variables.
func (r *Runner) apiFacts(tx *bbolt.Tx, model project.Facts) project.Facts {
	env, tok, S := r.Env, r.Env.Tok, r.Env.S
	f := project.Facts{}
	ns := func(p *string) string {
		if p == nil {
			return project.Nil
		}
		return tok.Model(*p)
	}
	list := func(xs []string) string {
		out := make([]string, 0, len(xs))
		for _, x := range xs {
			out = append(out, tok.Model(x))
		}
		sort.Strings(out)
		return strings.Join(out, ",")
	}
	listT := func(xs []string) string { // ids of teams
		out := make([]string, 0, len(xs))
		for _, x := range xs {
			out = append(out, tok.ModelT(x))
		}
		sort.Strings(out)
		return strings.Join(out, ",")
	}
	var pids, tids []string
	for c := S.People.IterateIds(tx, ast.BoolNodeTrue); c.IsValid(); c.Next() {
		pids = append(pids, string(c.Current()))
	}
	for c := S.Teams.IterateIds(tx, ast.BoolNodeTrue); c.IsValid(); c.Next() {
		tids = append(tids, string(c.Current()))
	}
	for _, rid := range pids {
		id := tok.Model(rid)
		p, found, err := S.People.FindById(tx, rid)
		if err != nil || !found {
			f["ent/"+id+"/!find"] = fmt.Sprint(found, err)
			continue
		}
		f["ent/"+id+"/name"] = tok.Model(p.Name)
		f["ent/"+id+"/nick"] = ns(p.Nick)
		f["ent/"+id+"/boss"] = ns(p.Boss)
		if p.Team == nil {
			f["ent/"+id+"/team"] = project.Nil
		} else {
			f["ent/"+id+"/team"] = tok.ModelT(*p.Team)
		}
		f["ent/"+id+"/sys"] = fmt.Sprint(p.IsSystem)
		f["ent/"+id+"/roles"] = list(p.Roles)
		if st, found, _ := S.Staff.FindById(tx, rid); found && st != nil && S.Staff.IsEntityPresent(tx, rid) {
			f["ext/"+id+"/lead"] = fmt.Sprint(st.Lead)
			f["ext/"+id+"/grade"] = tok.Model(st.Grade)
			if st.Name != p.Name || ns(st.Nick) != ns(p.Nick) {
				f["ext/"+id+"/!parentFieldsDiffer"] = st.Name
			}
		}
		if l := S.People.GetRelatedEntitiesIdList(tx, rid, schema.FRep); len(l) > 0 {
			f["backBoss/"+id] = list(l)
		}
		if S.Cfg.ChildFeatures && S.Staff.IsEntityPresent(tx, rid) {
			if l := S.Staff.GetRelatedEntitiesIdList(tx, rid, schema.FChiefOf); len(l) > 0 {
				f["backChief/"+id] = listT(l)
			}
			if l := S.Staff.Squads.GetLinks(tx, rid); len(l) > 0 {
				f["lnkST/"+id] = listT(l)
			}
		}
		if l := S.People.Links.GetLinks(tx, rid); len(l) > 0 {
			f["lnkPT/"+id] = listT(l)
		}
		var viaCursor []string
		for c := S.People.Links.IterateLinks(tx, []byte(rid)); c.IsValid(); c.Next() {
			viaCursor = append(viaCursor, string(c.Current()))
		}
		if listT(viaCursor) != listT(S.People.Links.GetLinks(tx, rid)) {
			f["lnkPT/"+id+"/!cursor"] = listT(viaCursor)
		}
		for _, rt := range tids {
			a, b := S.People.Rc.GetLinkCounts(tx, []byte(rid), []byte(rt))
			if a != nil {
				f["rcPT/"+id+"/"+tok.ModelT(rt)] = fmt.Sprint(*a)
			}
			if b != nil {
				f["rcTP/"+tok.ModelT(rt)+"/"+id] = fmt.Sprint(*b)
			}
			if S.People.Links.IsLinked(tx, []byte(rid), []byte(rt)) != strings.Contains(","+f["lnkPT/"+id]+",", ","+tok.ModelT(rt)+",") {
				f["lnkPT/"+id+"/!isLinked/"+tok.ModelT(rt)] = "disagrees"
			}
		}
	}
	for _, rt := range tids {
		t := tok.ModelT(rt)
		f["tms/"+t] = "1"
		if l := S.Teams.GetRelatedEntitiesIdList(tx, rt, schema.FTRep); len(l) > 0 {
			f["backTeam/"+t] = list(l)
		}
		if l := S.Teams.Links.GetLinks(tx, rt); len(l) > 0 {
			f["lnkTP/"+t] = list(l)
		}
		if S.Cfg.ChildFeatures {
			if tm, found, _ := S.Teams.FindById(tx, rt); found && tm != nil && tm.Chief != nil {
				f["chief/"+t] = tok.Model(*tm.Chief)
			}
			if l := S.Teams.Squads.GetLinks(tx, rt); len(l) > 0 {
				f["lnkTS/"+t] = list(l)
			}
		}
	}
	// index reads: for every value the model or the entities know
	seen := map[string]bool{}
	probe := func(pfx string, idx boltz.ReadIndex, v string) {
		if v == project.Nil || v == "" || seen[pfx+v] {
			return
		}
		seen[pfx+v] = true
		if got := idx.Read(tx, []byte(tok.Real(v))); got != nil {
			f[pfx+v] = tok.Model(string(got))
		}
	}
	for k := range model {
		switch {
		case strings.HasPrefix(k, "uName/"):
			probe("uName/", S.People.IdxName, strings.TrimPrefix(k, "uName/"))
		case strings.HasPrefix(k, "uNick/"):
			probe("uNick/", S.People.IdxNick, strings.TrimPrefix(k, "uNick/"))
		case strings.HasPrefix(k, "uGrade/"):
			probe("uGrade/", S.Staff.IdxGrade, strings.TrimPrefix(k, "uGrade/"))
		}
	}
	for k, v := range f {
		switch {
		case strings.HasSuffix(k, "/name") && strings.HasPrefix(k, "ent/"):
			probe("uName/", S.People.IdxName, v)
		case strings.HasSuffix(k, "/nick") && strings.HasPrefix(k, "ent/"):
			probe("uNick/", S.People.IdxNick, v)
		case strings.HasSuffix(k, "/grade") && strings.HasPrefix(k, "ext/"):
			probe("uGrade/", S.Staff.IdxGrade, v)
		}
	}
	S.People.IdxRoles.ReadKeys(tx, func(key []byte) {
		role := tok.Model(string(key))
		f["sKey/"+role] = "1"
		var ids []string
		S.People.IdxRoles.Read(tx, key, func(val []byte) { ids = append(ids, string(val)) })
		if len(ids) > 0 {
			f["sRoles/"+role] = list(ids)
		}
		var viaCursor []string
		for c := S.People.IdxRoles.OpenValueCursor(tx, key, true); c.IsValid(); c.Next() {
			viaCursor = append(viaCursor, string(c.Current()))
		}
		if list(viaCursor) != list(ids) {
			f["sRoles/"+role+"/!cursor"] = list(viaCursor)
		}
	})
	_ = env
	return f
}

// childView checks what the child store shows: C15
func (r *Runner) childView(tx *bbolt.Tx, model project.Facts) []project.Diff {
	tok, S := r.Env.Tok, r.Env.S
	var out []project.Diff
	want := map[string]bool{}   // ids with child data
	parent := map[string]bool{} // all people
	for k := range model {
		if strings.HasPrefix(k, "ext/") && strings.HasSuffix(k, "/grade") {
			want[strings.Split(k, "/")[1]] = true
		}
		if strings.HasPrefix(k, "ent/") && strings.HasSuffix(k, "/name") {
			parent[strings.Split(k, "/")[1]] = true
		}
	}
	render := func(m map[string]bool) string {
		var ks []string
		for k := range m {
			ks = append(ks, k)
		}
		sort.Strings(ks)
		return strings.Join(ks, ",")
	}
	expectVisible := want
	if S.Cfg.ChildExtended {
		expectVisible = parent
	}
	got := map[string]bool{}
	for c := S.Staff.IterateIds(tx, ast.BoolNodeTrue); c.IsValid(); c.Next() {
		got[tok.Model(string(c.Current()))] = true
	}
	if render(got) != render(expectVisible) {
		out = append(out, project.Diff{Key: "child/IterateIds", Model: render(expectVisible), Real: render(got), Owner: "C15"})
	}
	got = map[string]bool{}
	for c := S.Staff.IterateValidIds(tx, ast.BoolNodeTrue); c.IsValid(); c.Next() {
		got[tok.Model(string(c.Current()))] = true
	}
	if render(got) != render(want) {
		out = append(out, project.Diff{Key: "child/IterateValidIds", Model: render(want), Real: render(got), Owner: "C15"})
	}
	ids, n, err := S.Staff.QueryIds(tx, "true")
	got = map[string]bool{}
	for _, id := range ids {
		got[tok.Model(id)] = true
	}
	if err != nil || render(got) != render(expectVisible) || int(n) != len(expectVisible) {
		out = append(out, project.Diff{Key: "child/QueryIds", Model: render(expectVisible), Real: fmt.Sprint(render(got), " count=", n, " err=", err), Owner: "C15"})
	}
	ids, _, err = S.Staff.QueryIds(tx, "true sort by name")
	got = map[string]bool{}
	for _, id := range ids {
		got[tok.Model(id)] = true
	}
	if err != nil || render(got) != render(expectVisible) {
		out = append(out, project.Diff{Key: "child/QueryIds-sorted", Model: render(expectVisible), Real: fmt.Sprint(render(got), " err=", err), Owner: "C15"})
	}
	for id := range parent {
		rid := tok.Real(id)
		_, found, _ := S.Staff.FindById(tx, rid)
		if found != expectVisible[id] {
			out = append(out, project.Diff{Key: "child/FindById/" + id, Model: fmt.Sprint(expectVisible[id]), Real: fmt.Sprint(found), Owner: "C15"})
		}
		_, err := S.Staff.LoadById(tx, rid)
		if (err == nil) != expectVisible[id] {
			out = append(out, project.Diff{Key: "child/LoadById/" + id, Model: fmt.Sprint(expectVisible[id]), Real: fmt.Sprint(err), Owner: "C15"})
		}
		if S.Staff.IsEntityPresent(tx, rid) != want[id] {
			out = append(out, project.Diff{Key: "child/IsEntityPresent/" + id, Model: fmt.Sprint(want[id]), Real: fmt.Sprint(!want[id]), Owner: "C15"})
		}
	}
	return out
}

func (r *Runner) deepCheck(at int, e *Step) bool {
	model := project.ModelFacts(e.Db)
	ok := true
	_ = r.Env.Db.View(func(tx *bbolt.Tx) error {
		diffs := project.Compare(model, r.apiFacts(tx, model))
		diffs = append(diffs, r.childView(tx, model)...)
		if len(diffs) > 0 {
			r.viol(at, "api-read", diffOwners(diffs), "the read API disagrees with the model after "+e.op(), diffs, diffSig("api", e, diffs))
			ok = false
		}
		return nil
	})
	return ok
}
