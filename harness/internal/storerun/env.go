// Package storerun executes model steps of Store.tla / StoreSys.tla against the real library.
package storerun

import (
	"context"
	"errors"
	"fmt"
	"os"
	"path/filepath"
	"sort"
	"strings"
	"sync"
	"time"

	"github.com/openziti/foundation/v2/errorz"
	"github.com/openziti/storage/boltz"
	"verif/harness/internal/project"
	"verif/harness/internal/schema"
)

var (
	ErrVeto   = errors.New("verif: vetoed by entity constraint")
	ErrCaller = errors.New("verif: caller error")
	ErrPre    = errors.New("verif: pre-commit action failed")
	ErrEnd    = errors.New("verif: behaviour ends inside a transaction")
)

// Event is one listener invocation, in the shape of Store.tla's events.
type Event struct {
	St string `json:"st"`
	Ty string `json:"ty"`
	Id string `json:"id"`
	Pl string `json:"pl"` // payload rendered as text; "" for id-only styles
}

func (e Event) String() string { return e.St + ":" + e.Ty + ":" + e.Id + ":" + e.Pl }

// Env is one database with the verification schema wired up and every observer registered.
type Env struct {
	Dir    string
	Path   string
	Db     *boltz.DbImpl
	S      *schema.Stores
	Tok    *project.Tokens
	mu     sync.Mutex
	log    map[string][]Event // listener style -> events
	armed  bool               // the vetoing constraint refuses the next pre-commit
	txc    int                // tx-complete listener invocations
	acts   int                // commit actions run
	actsCh chan struct{}
}

var Styles = []string{"typed", "typedF", "untyped", "idOnly", "constraint", "untypedConstraint", "typedAsync", "untypedAsync", "idAny", "untypedAny"}

func payloadOf(e boltz.Entity, tok *project.Tokens) string {
	ns := func(p *string) string {
		if p == nil {
			return project.Nil
		}
		return tok.Model(*p)
	}
	switch v := e.(type) {
	case *schema.Staff:
		if v == nil {
			return "<nil>"
		}
		return fmt.Sprintf("%s|%s|%s|%v", tok.Model(v.Name), ns(v.Nick), tok.Model(v.Grade), v.Lead)
	case *schema.Person:
		if v == nil {
			return "<nil>"
		}
		return fmt.Sprintf("%s|%s", tok.Model(v.Name), ns(v.Nick))
	case *schema.Team:
		return ""
	}
	return "<?>"
}

type typedL[E boltz.Entity] struct{ f func(E) }

func (l typedL[E]) HandleEntityEvent(e E) { l.f(e) }

type typedC[E boltz.Entity] struct {
	env *Env
	st  string
}

func tyName(t boltz.EntityEventType) string {
	switch {
	case t.IsCreate():
		return "created"
	case t.IsUpdate():
		return "updated"
	case t.IsDelete():
		return "deleted"
	}
	return "?"
}

func (c typedC[E]) ProcessPreCommit(state *boltz.EntityChangeState[E]) error {
	if c.env.takeVeto() {
		return ErrVeto
	}
	return nil
}

func (c typedC[E]) ProcessPostCommit(state *boltz.EntityChangeState[E]) {
	var e boltz.Entity = state.FinalState
	if state.ChangeType.IsDelete() {
		e = state.InitialState
	}
	c.env.record("constraint", Event{St: c.st, Ty: tyName(state.ChangeType), Id: c.env.modelId(c.st, state.EntityId), Pl: payloadOf(e, c.env.Tok)})
}

type untypedC struct {
	env *Env
	st  string
}

func (c untypedC) ProcessPreCommit(boltz.UntypedEntityChangeState) error { return nil }
func (c untypedC) ProcessPostCommit(state boltz.UntypedEntityChangeState) {
	e := state.GetFinalState()
	if state.GetChangeType().IsDelete() {
		e = state.GetInitialState()
	}
	c.env.record("untypedConstraint", Event{St: c.st, Ty: tyName(state.GetChangeType()), Id: c.env.modelId(c.st, state.GetEntityId()), Pl: payloadOf(e, c.env.Tok)})
}

// the model token of an id of the given store (team ids have a namespace of their own)
func (env *Env) modelId(st, id string) string {
	if st == "teams" {
		return env.Tok.ModelT(id)
	}
	return env.Tok.Model(id)
}

func (env *Env) takeVeto() bool {
	env.mu.Lock()
	defer env.mu.Unlock()
	if env.armed {
		env.armed = false
		return true
	}
	return false
}

func (env *Env) record(style string, e Event) {
	env.mu.Lock()
	env.log[style] = append(env.log[style], e)
	env.mu.Unlock()
}

func register[E boltz.Entity](env *Env, st string, store boltz.EntityStore[E]) {
	types := []struct {
		sync, async boltz.EntityEventType
	}{{boltz.EntityCreated, boltz.EntityCreatedAsync}, {boltz.EntityUpdated, boltz.EntityUpdatedAsync}, {boltz.EntityDeleted, boltz.EntityDeletedAsync}}
	for _, ty := range types {
		ty := ty
		name := tyName(ty.sync)
		mk := func(style string, idOnly bool) func(e boltz.Entity) {
			return func(e boltz.Entity) {
				pl := ""
				if !idOnly {
					pl = payloadOf(e, env.Tok)
				}
				env.record(style, Event{St: st, Ty: name, Id: env.modelId(st, e.GetId()), Pl: pl})
			}
		}
		store.AddEntityEventListener(typedL[E]{f: func(e E) { mk("typed", false)(e) }}, ty.sync)
		store.AddEntityEventListenerF(func(e E) { mk("typedF", false)(e) }, ty.sync)
		store.AddListener(mk("untyped", false), ty.sync)
		store.AddEntityIdListener(func(id string) {
			env.record("idOnly", Event{St: st, Ty: name, Id: env.modelId(st, id)})
		}, ty.sync)
		store.AddEntityEventListenerF(func(e E) { mk("typedAsync", false)(e) }, ty.async)
		store.AddListener(mk("untypedAsync", false), ty.async)
	}
	// one registration for several change types at once (the type of the change is not part of what these listeners are told).
	// The caller keeps the slice it passes as the variadic argument and uses it again: a registration owns its own copy
	more := make([]boltz.EntityEventType, 2, 8)
	more[0], more[1] = boltz.EntityUpdated, boltz.EntityDeleted
	store.AddEntityIdListener(func(id string) {
		env.record("idAny", Event{St: st, Ty: "any", Id: env.modelId(st, id)})
	}, boltz.EntityCreated, more...)
	store.AddListener(func(e boltz.Entity) {
		env.record("untypedAny", Event{St: st, Ty: "any", Id: env.modelId(st, e.GetId())})
	}, boltz.EntityCreated, more...)
	store.AddListener(func(boltz.Entity) {}, boltz.EntityDeletedAsync, more[:1]...)
	store.AddEntityIdListener(func(string) {}, boltz.EntityUpdatedAsync, more...)
	more[0], more[1] = boltz.EntityCreatedAsync, boltz.EntityCreatedAsync
	store.AddEntityConstraint(typedC[E]{env: env, st: st})
	store.AddUntypedEntityConstraint(untypedC{env: env, st: st})
}

// NewEnv creates a fresh database under dir.
func NewEnv(dir string, cfg schema.Config, tok *project.Tokens) (*Env, error) {
	path := filepath.Join(dir, "db.bolt")
	_ = os.Remove(path)
	db, err := boltz.Open(path, "stores")
	if err != nil {
		return nil, err
	}
	env := &Env{Dir: dir, Path: path, Db: db, S: schema.New(cfg), Tok: tok, log: map[string][]Event{}, actsCh: make(chan struct{}, 1024)}
	register[*schema.Person](env, "people", env.S.People)
	register[*schema.Staff](env, "staff", env.S.Staff)
	register[*schema.Team](env, "teams", env.S.Teams)
	db.AddTxCompleteListener(func(ctx boltz.MutateContext) {
		env.mu.Lock()
		env.txc++
		env.mu.Unlock()
	})
	if err = env.S.Init(db); err != nil {
		return nil, err
	}
	env.ResetObs()
	return env, nil
}

func (env *Env) Close() {
	_ = env.Db.Close()
	_ = os.Remove(env.Path)
}

func (env *Env) ResetObs() {
	env.mu.Lock()
	env.log = map[string][]Event{}
	env.txc = 0
	env.acts = 0
	env.mu.Unlock()
}

// Obs is what the observers saw since the last ResetObs.
type Obs struct {
	Log  map[string][]string
	Txc  int
	Acts int
}

func (env *Env) snapshotObs() Obs {
	env.mu.Lock()
	defer env.mu.Unlock()
	o := Obs{Log: map[string][]string{}, Txc: env.txc, Acts: env.acts}
	for k, v := range env.log {
		for _, e := range v {
			o.Log[k] = append(o.Log[k], e.String())
		}
		sort.Strings(o.Log[k])
	}
	return o
}

// AwaitObs waits (bounded) until the asynchronous observers have seen what is expected; time never
// decides a verdict: a deadline that is reached simply leaves the counts short, which the caller reports.
func (env *Env) AwaitObs(wantAsync, wantActs int) Obs {
	deadline := time.Now().Add(3 * time.Second)
	for {
		env.mu.Lock()
		ok := len(env.log["typedAsync"]) >= wantAsync && len(env.log["untypedAsync"]) >= wantAsync && env.acts >= wantActs
		env.mu.Unlock()
		if ok || time.Now().After(deadline) {
			break
		}
		time.Sleep(200 * time.Microsecond)
	}
	return env.snapshotObs()
}

func (env *Env) commitAction() {
	env.mu.Lock()
	env.acts++
	env.mu.Unlock()
}

// Classify maps an error to the coarse classes the API exposes as types.
func Classify(err error) string {
	if err == nil {
		return ""
	}
	switch {
	case errors.Is(err, ErrVeto):
		return "veto"
	case errors.Is(err, ErrCaller):
		return "caller"
	case errors.Is(err, ErrPre):
		return "precommit"
	case boltz.IsErrNotFoundErr(err):
		return "notfound"
	case boltz.IsReferenceExistsError(err):
		return "refExists"
	case boltz.IsUniqueIndexDuplicateError(err):
		return "dup"
	}
	var api *errorz.ApiError
	if errors.As(err, &api) {
		return "api"
	}
	return "other"
}

// ClassMatters says whether the properties name the error a rejected call has to fail with: a duplicate unique value (C03), a reference
// that still exists (C04: "refused with a reference-exists error") and a veto ("a veto ... is always returned to the caller", C07).
// Every other rejection only has to reach the caller as a non-nil error.
func ClassMatters(app []string) bool {
	for _, a := range app {
		if a != "dup" && a != "refExists" && a != "veto" {
			return false
		}
	}
	return len(app) > 0
}

// Coarsen maps the model's error classes to what Classify can tell apart.
func Coarsen(op string, app []string) map[string]bool {
	out := map[string]bool{}
	for _, a := range app {
		switch a {
		case "notfound", "fkMissing":
			out["notfound"] = true
		case "refExists", "dup", "veto", "caller", "precommit":
			out[a] = true
		case "system":
			if op == "create" {
				out["other"] = true
			} else {
				out["api"] = true
			}
		default: // exists emptyUnique storage fkNull other
			out["other"] = true
		}
	}
	return out
}

func keys(m map[string]bool) string {
	var ks []string
	for k := range m {
		ks = append(ks, k)
	}
	sort.Strings(ks)
	return strings.Join(ks, ",")
}

var _ = context.Background
