package storerun

import (
	"context"
	"errors"
	"fmt"
	"sort"
	"strings"

	"github.com/openziti/storage/boltz"
	"go.etcd.io/bbolt"
	"verif/harness/internal/project"
	"verif/harness/internal/schema"
)

// Step is one step of a behaviour of StoreSys.tla (decoded JSON).
type Step struct {
	Last map[string]any `json:"last"`
	Db   map[string]any `json:"db"`
	Open bool           `json:"open"`
}

// Violation is one disagreement between the model and the implementation.
type Violation struct {
	Behaviour int            `json:"behaviour"`
	Step      int            `json:"step"`
	Kind      string         `json:"kind"`
	Owners    string         `json:"owners"` // comma separated property ids ("core" = whichever property is under check)
	Detail    string         `json:"detail"`
	Diffs     []project.Diff `json:"diffs,omitempty"`
	Sig       string         `json:"sig"` // canonical signature (known-findings matching)
}

func str(v any) string {
	if v == nil {
		return ""
	}
	return fmt.Sprint(v)
}

func strs(v any) []string {
	arr, _ := v.([]any)
	out := make([]string, 0, len(arr))
	for _, x := range arr {
		out = append(out, fmt.Sprint(x))
	}
	sort.Strings(out)
	return out
}

func (s *Step) op() string    { return str(s.Last["op"]) }
func (s *Step) res() string   { return str(s.Last["res"]) }
func (s *Step) app() []string { return strs(s.Last["app"]) }
func (s *Step) args() map[string]any {
	m, _ := s.Last["a"].(map[string]any)
	return m
}

// owners of a missing / wrong error, by the error class the model demands
func classOwners(op string, app []string) string {
	return classOwnersVia(op, app, "", false)
}

// missing: the call reported success although a step of it was rejected -- that is C07's statement whatever the class;
// a call through the child store is also C15's ("parent-store indexes and constraints apply identically to child entities")
func classOwnersVia(op string, app []string, via string, missing bool) string {
	set := map[string]bool{}
	if missing {
		set["C07"] = true
	}
	if via == "staff" {
		set["C15"] = true
	}
	for _, a := range app {
		switch a {
		case "dup", "emptyUnique":
			set["C03"] = true
		case "fkMissing", "refExists", "fkNull":
			set["C04"] = true
		case "system":
			set["C16"] = true
		case "storage":
			// a write the storage layer refuses: C07's statement; when it is a write of an index entry of a create/update, also C03's
			set["C07"] = true
			if op == "create" || op == "update" {
				set["C03"] = true
			}
		case "veto", "caller", "precommit":
			set["C07"] = true
		case "notfound":
			if strings.Contains(op, "ink") || strings.HasPrefix(op, "rc") {
				set["C05"] = true
			} else {
				set["core"] = true
			}
		default:
			set["core"] = true
		}
	}
	return keys(set)
}

type ctxKey struct{}

type Runner struct {
	Prop  string // the property under check ("" = stop at the first divergence whoever owns it)
	blind bool   // a divergence owned by another property happened: keep executing, compare nothing against the model any more
	Env   *Env
	Idx   int // behaviour index
	V     []Violation
	// statistics
	StepsRun, TxCommitted, TxAborted, OpsOk, OpsFailed, EventsChecked int
	Deep                                                              bool // API-level read checks at commit points
}

func (r *Runner) viol(step int, kind, owners, detail string, diffs []project.Diff, sig string) {
	r.V = append(r.V, Violation{Behaviour: r.Idx, Step: step, Kind: kind, Owners: owners, Detail: detail, Diffs: diffs, Sig: sig})
}

func diffOwners(diffs []project.Diff) string {
	set := map[string]bool{}
	for _, d := range diffs {
		for _, o := range strings.Split(d.Owner, ",") {
			set[o] = true
		}
	}
	return keys(set)
}

func diffSig(kind string, s *Step, diffs []project.Diff) string {
	var ks []string
	for _, d := range diffs {
		k := d.Key
		if i := strings.Index(k, "/"); i > 0 {
			k = k[:i]
		}
		ks = append(ks, k)
	}
	sort.Strings(ks)
	ks = uniq(ks)
	return kind + ":" + s.op() + ":" + strings.Join(ks, "+")
}

func uniq(xs []string) []string {
	var out []string
	for i, x := range xs {
		if i == 0 || xs[i-1] != x {
			out = append(out, x)
		}
	}
	return out
}

func (r *Runner) person(a map[string]any) *schema.Person {
	tok := r.Env.Tok
	p, _ := a["p"].(map[string]any)
	e := &schema.Person{}
	e.Id = tok.Real(str(a["id"]))
	e.Name = tok.Real(str(p["name"]))
	opt := func(k string) *string {
		v := str(p[k])
		if v == project.Nil {
			return nil
		}
		s := tok.Real(v)
		return &s
	}
	e.Nick = opt("nick")
	e.Boss = opt("boss")
	e.Team = opt("team")
	for _, x := range strs(p["roles"]) {
		e.Roles = append(e.Roles, tok.Real(x))
	}
	e.IsSystem = p["sys"] == true
	if lt, ok := a["lt"].([]any); ok {
		for _, x := range lt {
			e.Teams = append(e.Teams, tok.Real(fmt.Sprint(x)))
		}
	}
	return e
}

func (r *Runner) staff(a map[string]any) *schema.Staff {
	st := &schema.Staff{Person: *r.person(a)}
	if x, ok := a["x"].(map[string]any); ok {
		st.Lead = x["lead"] == true
		st.Grade = r.Env.Tok.Real(str(x["grade"]))
	}
	return st
}

func checker(a map[string]any) boltz.FieldChecker {
	fs := strs(a["fields"])
	if len(fs) >= 8 { // AllFields = nil checker
		return nil
	}
	m := boltz.MapFieldChecker{}
	for _, f := range fs {
		// a field checker names stored keys
		switch f {
		case "nick":
			f = schema.KNick
		case "boss":
			f = schema.KBoss
		case "grade":
			f = schema.KGradeInChecker
		}
		m[f] = struct{}{}
	}
	return m
}

func realList(tok *project.Tokens, v any, salt int) []string {
	xs := strs(v)
	out := make([]string, 0, len(xs)+1)
	for _, x := range xs {
		out = append(out, tok.Real(x))
	}
	// "duplicates and order are irrelevant": permute and duplicate deterministically
	if len(out) > 1 && salt%2 == 1 {
		out[0], out[len(out)-1] = out[len(out)-1], out[0]
	}
	if len(out) > 0 && salt%3 == 1 {
		out = append(out, out[0])
	}
	return out
}

func unstorableTags() map[string]interface{} {
	// (one element that is refused among many that are fine: wherever the iteration over the map meets it, the error has to stick)
	m := map[string]interface{}{"nested": map[string]interface{}{"x": "y"}, "text": "b"}
	for i := 0; i < 300; i++ {
		m[fmt.Sprintf("nil%d", i)] = nil
	}
	return m
}

// exec performs one store call; ret is the call's return value rendered like the model's `ret`.
func (r *Runner) exec(ctx boltz.MutateContext, s *Step, salt int) (ret string, err error) {
	env, tok, a := r.Env, r.Env.Tok, s.args()
	S := env.S
	tx := ctx.Tx()
	// a veto comes from a constraint of the application, or (every third create) from the storage layer's own validation of what the
	// entity carries: a tags map with an element that cannot be stored -- among elements that can, nil valued ones included
	tagVeto := a["veto"] == true && s.op() == "create" && salt%3 == 1
	if tagVeto {
		defer func() {
			if err != nil {
				err = fmt.Errorf("%w (%v)", ErrVeto, err)
			}
		}()
	} else if a["veto"] == true {
		env.mu.Lock()
		env.armed = true
		env.mu.Unlock()
		defer func() {
			env.mu.Lock()
			env.armed = false
			env.mu.Unlock()
		}()
	}
	id := tok.Real(str(a["id"]))
	ret = project.Nil
	if a["osys"] == true {
		// the call is made with a system context derived from the transaction's context; the transaction's own
		// context must keep its privileges (or lack of them) for the calls that follow
		sctx := ctx.GetSystemContext()
		if salt%2 == 0 {
			// an application attaches a value to the context of the call it is about to make (the returned context is not used):
			// this must not change what the transaction's own context may do
			sctx.UpdateContext(func(c context.Context) context.Context { return context.WithValue(c, ctxKey{}, salt) })
		}
		ctx = sctx
	}
	switch s.op() {
	case "create", "update":
		// the caller's struct is the caller's: it is re-used (here: overwritten) right after the call returns, long before the
		// commit -- listeners must be handed the state that was written, not whatever the struct holds by then
		scribble := func(p *schema.Person) {
			if salt%2 == 1 {
				n := "scribbled-after-the-call"
				p.Id, p.Name, p.Nick, p.Roles = "not-an-entity", n, &n, []string{n}
			}
		}
		if str(a["via"]) == "staff" {
			e := r.staff(a)
			if tagVeto {
				e.Tags = unstorableTags()
			}
			// (an entity marked as being migrated keeps its time stamps; the mark says nothing about the system flag)
			e.Migrate = s.op() == "update" && salt%2 == 0
			if s.op() == "create" {
				err = S.Staff.Create(ctx, e)
			} else {
				err = S.Staff.Update(ctx, e, checker(a))
			}
			scribble(&e.Person)
			if salt%2 == 1 {
				e.Grade, e.Lead = "scribbled", !e.Lead
			}
		} else {
			e := r.person(a)
			if tagVeto {
				e.Tags = unstorableTags()
			}
			e.Migrate = s.op() == "update" && salt%2 == 0
			if s.op() == "create" {
				err = S.People.Create(ctx, e)
			} else {
				err = S.People.Update(ctx, e, checker(a))
			}
			scribble(e)
		}
	case "delete":
		if salt%4 == 1 && S.Staff.IsEntityPresent(tx, id) {
			// nothing in the library keeps an entity from having data in two child stores: give this one data in the (otherwise
			// empty) child store that is registered first -- the delete has to clean up in every child store all the same
			// (child data lives inside the parent's entity bucket, below the child store's path)
			if eb := S.People.GetEntityBucket(tx, []byte(id)); eb != nil {
				eb.GetOrCreatePath("intern").SetString("grade", "second-child-store", nil)
			}
		}
		if str(a["via"]) == "staff" {
			err = S.Staff.DeleteById(ctx, id)
		} else {
			err = S.People.DeleteById(ctx, id)
		}
	case "deleteWhere":
		q := "true"
		switch str(a["k"]) {
		case "name":
			q = "name = " + zqlQuote(tok.Real(str(a["v"])))
		case "grade":
			q = "grade = " + zqlQuote(tok.Real(str(a["v"])))
		}
		if str(a["via"]) == "staff" {
			err = S.Staff.DeleteWhere(ctx, q)
		} else {
			err = S.People.DeleteWhere(ctx, q)
		}
	case "createTeam", "updateTeam":
		tm := &schema.Team{Id: id}
		if c := str(a["chief"]); c != "" && c != project.Nil {
			real := tok.Real(c)
			tm.Chief = &real
		}
		if s.op() == "createTeam" {
			err = S.Teams.Create(ctx, tm)
		} else {
			err = S.Teams.Update(ctx, tm, nil)
		}
	case "deleteTeam":
		err = S.Teams.DeleteById(ctx, id)
	case "addLinks", "removeLinks", "setLinks":
		lc := S.People.Links
		switch str(a["side"]) {
		case "teams":
			lc = S.Teams.Links
		case "staff":
			lc = S.Staff.Squads
		case "squads":
			lc = S.Teams.Squads
		}
		ks := realList(tok, a["keys"], salt)
		switch s.op() {
		case "addLinks":
			err = lc.AddLinks(tx, id, ks...)
		case "removeLinks":
			err = lc.RemoveLinks(tx, id, ks...)
		default:
			err = lc.SetLinks(tx, id, ks)
		}
	case "addLink", "removeLink":
		key := tok.Real(str(a["key"]))
		var ch bool
		if s.op() == "addLink" {
			ch, err = S.People.Links.AddLink(tx, []byte(id), []byte(key))
		} else {
			ch, err = S.People.Links.RemoveLink(tx, []byte(id), []byte(key))
		}
		ret = fmt.Sprint(ch)
	case "rcInc", "rcDec":
		key := tok.Real(str(a["key"]))
		var n int
		// the collection is symmetric: drive it from either side -- but only when both entities exist (the model's
		// step is the call from the people side, where only the person has to exist)
		fromTeam := salt%2 == 1 && s.res() == "ok" && modelRet(s) != "absent"
		switch {
		case s.op() == "rcInc" && !fromTeam:
			n, err = S.People.Rc.IncrementLinkCount(tx, []byte(id), []byte(key))
		case s.op() == "rcInc":
			n, err = S.Teams.Rc.IncrementLinkCount(tx, []byte(key), []byte(id))
		case !fromTeam:
			n, err = S.People.Rc.DecrementLinkCount(tx, []byte(id), []byte(key))
		default:
			n, err = S.Teams.Rc.DecrementLinkCount(tx, []byte(key), []byte(id))
		}
		ret = fmt.Sprint(n)
		if n < 0 {
			ret = "absent"
		}
	case "rcSet":
		key := tok.Real(str(a["key"]))
		c := 0
		fmt.Sscan(str(a["count"]), &c)
		var o1, o2 *int32
		o1, o2, err = S.People.Rc.SetLinkCount(tx, []byte(id), []byte(key), c)
		p := func(x *int32) string {
			if x == nil {
				return "0"
			}
			return fmt.Sprint(*x)
		}
		ret = p(o1)
		if p(o1) != p(o2) {
			ret = p(o1) + "/" + p(o2)
		}
	default:
		return "", fmt.Errorf("harness: unknown op %q", s.op())
	}
	return ret, err
}

var zqlEscaper = strings.NewReplacer(`\`, `\\`, `"`, `\"`, "\f", `\f`, "\n", `\n`, "\r", `\r`, "\t", `\t`)

// zqlQuote renders a string as a ZitiQL literal (every other character is legal raw inside the quotes)
func zqlQuote(s string) string { return `"` + zqlEscaper.Replace(s) + `"` }

func modelRet(s *Step) string {
	v := s.Last["ret"]
	switch x := v.(type) {
	case bool:
		return fmt.Sprint(x)
	case float64:
		return fmt.Sprint(int(x))
	}
	return str(v)
}

func modelEvents(last map[string]any) []string {
	var out []string
	evs, _ := last["evs"].([]any)
	for _, e := range evs {
		m, _ := e.(map[string]any)
		var pl []string
		if arr, ok := m["pl"].([]any); ok {
			for _, x := range arr {
				pl = append(pl, fmt.Sprint(x))
			}
		}
		out = append(out, str(m["st"])+":"+str(m["ty"])+":"+str(m["id"])+":"+strings.Join(pl, "|"))
	}
	sort.Strings(out)
	return out
}

// what a listener registered for every change type at once sees: store and id
func anyType(evs []string) []string {
	out := make([]string, 0, len(evs))
	for _, e := range evs {
		parts := strings.SplitN(e, ":", 4)
		out = append(out, parts[0]+":any:"+parts[2]+":")
	}
	sort.Strings(out)
	return out
}

func stripPayload(evs []string) []string {
	out := make([]string, 0, len(evs))
	for _, e := range evs {
		parts := strings.SplitN(e, ":", 4)
		out = append(out, strings.Join(parts[:3], ":")+":")
	}
	sort.Strings(out)
	return out
}

// Run executes one behaviour.  It returns false when the behaviour had to be abandoned after a
// divergence (the remaining steps are meaningless once model and implementation disagree).
func (r *Runner) Run(steps []Step) bool {
	env := r.Env
	i := 0
	noActions := true
	for k := range steps {
		if op := steps[k].op(); op == "commitAction" || op == "preCommit" {
			noActions = false
		}
	}
	var shared boltz.MutateContext
	for i < len(steps) {
		b := &steps[i]
		if b.op() != "begin" {
			r.viol(i, "harness", "harness", "behaviour does not start a transaction with begin: "+b.op(), nil, "harness")
			return false
		}
		// find the end of the transaction
		j := i + 1
		for j < len(steps) && steps[j].Open {
			j++
		}
		hasEnd := j < len(steps)
		body := steps[i+1 : min(j+1, len(steps))]
		rawBefore := r.dumpLive()
		env.ResetObs()

		var opErr error
		divergedAt := -1
		preRegistered := false
		actRegistered := false
		fn := func(ctx boltz.MutateContext) error {
			// bbolt.Batch may re-invoke the body: everything the body records is reset on entry
			opErr = nil
			divergedAt = -1
			for k := range body {
				s := &body[k]
				at := i + 1 + k
				r.StepsRun++
				switch s.op() {
				case "commitAction":
					if k == 0 && actRegistered {
						continue
					}
					// registered on the transaction's context, or on what UpdateContext / GetSystemContext hand back for it: one transaction
					switch (at + r.Idx) % 3 {
					case 0:
						ctx.AddCommitAction(env.commitAction)
					case 1:
						ctx.UpdateContext(func(c context.Context) context.Context { return context.WithValue(c, ctxKey{}, at) }).AddCommitAction(env.commitAction)
					default:
						ctx.GetSystemContext().AddCommitAction(env.commitAction)
					}
					continue
				case "preCommit":
					if k == 0 && preRegistered {
						continue
					}
					fail := str(s.args()["outcome"]) == "fail"
					pre := func(boltz.MutateContext) error {
						if fail {
							return ErrPre
						}
						return nil
					}
					switch (at + r.Idx) % 3 {
					case 0:
						ctx.AddPreCommitAction(pre)
					case 1:
						ctx.GetSystemContext().AddPreCommitAction(pre)
					default:
						ctx.UpdateContext(func(c context.Context) context.Context { return context.WithValue(c, ctxKey{}, at) }).AddPreCommitAction(pre)
					}
					continue
				case "callerError":
					opErr = ErrCaller
					return ErrCaller
				case "commit":
					return nil
				}
				var ret string
				var err error
				call := func(c boltz.MutateContext) error {
					ret, err = r.exec(c, s, at+r.Idx)
					return err
				}
				if (at+r.Idx)%3 == 2 {
					_ = env.Db.Update(ctx, call) // a nested Update joins the running transaction
				} else {
					_ = call(ctx)
				}
				if s.res() == "ok" {
					if err != nil {
						r.viol(at, "unexpected-error", classOwners(s.op(), []string{"other"}), fmt.Sprintf("%s %v: model ok, implementation error %v", s.op(), s.args(), err), nil, "unexpected-error:"+s.op()+":"+Classify(err))
						divergedAt = at
						opErr = err
						return err
					}
					r.OpsOk++
					r.residue(at, ctx.Tx(), prevDb(steps, at), s)
					if r.blind {
						continue
					}
					if mr := modelRet(s); mr != ret {
						r.viol(at, "wrong-return", "C05", fmt.Sprintf("%s %v returned %s, model %s", s.op(), s.args(), ret, mr), nil, "wrong-return:"+s.op())
					}
					diffs := project.Compare(project.ModelFacts(s.Db), project.StoreFacts(project.Dump(ctx.Tx()), env.Tok))
					if len(diffs) > 0 {
						owners := diffOwners(diffs)
						if m, ok := prevDb(steps, at)["ext"].(map[string]any); ok {
							// what a call leaves behind for an entity that has child data is also the child store's business
							if x, ok := m[str(s.args()["id"])].(map[string]any); ok && x["none"] == nil && !strings.Contains(owners, "C15") {
								owners += ",C15"
							}
						}
						r.viol(at, "state-in-tx", owners, fmt.Sprintf("after %s %v (inside the transaction)", s.op(), s.args()), diffs, diffSig("state", s, diffs))
						if r.foreign(owners) {
							r.blind = true // another property's divergence: go on, looking only at what needs no model state
							continue
						}
						divergedAt = at
						opErr = ErrEnd
						return ErrEnd
					}
					continue
				}
				// the model rejects the call
				r.OpsFailed++
				via := str(s.args()["via"])
				if m, ok := prevDb(steps, at)["ext"].(map[string]any); ok {
					// a call on an entity that has child data is the child store's business whichever store it was issued through
					if x, ok := m[str(s.args()["id"])].(map[string]any); ok && x["none"] == nil {
						via = "staff"
					}
				}
				if err == nil {
					owners := classOwnersVia(s.op(), s.app(), via, true)
					r.viol(at, "missing-error", owners, fmt.Sprintf("%s %v reported success, model demands one of %v", s.op(), s.args(), s.app()), nil, "missing-error:"+s.op()+":"+strings.Join(s.app(), "+"))
					if r.foreign(owners) && (s.op() == "delete" || s.op() == "deleteTeam") {
						// another property's divergence: a delete went through that the model refuses.  What the id leaves behind is still
						// this property's business -- go on blind, after the raw scan for the id
						r.blind = true
						gone := false
						if s.op() == "delete" {
							gone = !env.S.People.IsEntityPresent(ctx.Tx(), env.Tok.Real(str(s.args()["id"])))
						} else {
							gone = !env.S.Teams.IsEntityPresent(ctx.Tx(), env.Tok.Real(str(s.args()["id"])))
						}
						if gone {
							r.residueOf(at, ctx.Tx(), s, []string{str(s.args()["id"])})
						}
						continue
					}
					divergedAt = at
					opErr = ErrEnd
					return ErrEnd
				}
				if want := Coarsen(s.op(), s.app()); ClassMatters(s.app()) && !want[Classify(err)] {
					r.viol(at, "wrong-error-class", classOwnersVia(s.op(), s.app(), via, false), fmt.Sprintf("%s %v failed with class %s (%v), model allows %s", s.op(), s.args(), Classify(err), err, keys(want)), nil, "wrong-error-class:"+s.op()+":"+Classify(err)+":"+strings.Join(s.app(), "+"))
				}
				opErr = err
				return err
			}
			opErr = ErrEnd
			return ErrEnd
		}

		var mctx boltz.MutateContext = boltz.NewMutateContext(context.Background())
		if noActions && r.Idx%2 == 1 && b.args()["sys"] != true {
			// an application may keep one context and hand it to one transaction after the other (nothing is registered on it here):
			// what a rolled-back transaction queued must not surface in a later one
			if shared == nil {
				shared = mctx
			}
			mctx = shared
		}
		if b.args()["sys"] == true {
			mctx = mctx.GetSystemContext()
		}
		// a pre-commit action that is the first step of the body is (every other time) registered on the
		// context before the transaction is started, the other way an application can do it
		if len(body) > 0 && body[0].op() == "preCommit" && (i+r.Idx)%2 == 0 {
			fail := str(body[0].args()["outcome"]) == "fail"
			mctx.AddPreCommitAction(func(boltz.MutateContext) error {
				if fail {
					return ErrPre
				}
				return nil
			})
			preRegistered = true
		}
		// likewise a commit action: registered on the context the application hands to Update / Batch
		if len(body) > 0 && body[0].op() == "commitAction" && (i+r.Idx)%2 == 0 {
			mctx.AddCommitAction(env.commitAction)
			actRegistered = true
		}
		var txErr error
		if str(b.args()["kind"]) == "batch" {
			txErr = env.Db.Batch(mctx, fn)
		} else if mctx != shared && b.args()["sys"] != true && !preRegistered && !actRegistered && (i+r.Idx)%4 == 3 {
			txErr = env.Db.Update(nil, fn) // no context of the caller's: the Db makes one
		} else {
			txErr = env.Db.Update(mctx, fn)
		}
		if divergedAt >= 0 {
			return false
		}
		if !hasEnd {
			return true // behaviour ended inside the transaction; it was rolled back by ErrEnd
		}
		e := &steps[j]
		if e.res() == "fail" {
			r.TxAborted++
			// C07: the caller gets the error, the database is exactly as before, nothing runs
			if txErr == nil {
				r.viol(j, "abort-no-error", "C07", fmt.Sprintf("transaction body failed at %s (%v) but Db returned nil", e.op(), e.app()), nil, "abort-no-error:"+e.op()+":"+strings.Join(e.app(), "+"))
				return false
			}
			if opErr != nil && !errors.Is(txErr, opErr) && txErr.Error() != opErr.Error() {
				r.viol(j, "abort-other-error", "C07", fmt.Sprintf("Db returned %v, body returned %v", txErr, opErr), nil, "abort-other-error:"+e.op())
			}
			if e.op() == "commit" && Classify(txErr) != "precommit" {
				r.viol(j, "wrong-error-class", "C07", fmt.Sprintf("commit with failing pre-commit action returned %v", txErr), nil, "wrong-error-class:commit")
			}
			rawAfter := r.dumpLive()
			if d := project.DiffLines(rawBefore.Lines(nil), rawAfter.Lines(nil)); len(d) > 0 {
				r.viol(j, "abort-changed-db", "C07", fmt.Sprintf("database differs after the rolled-back transaction (%s %v): %s", e.op(), e.app(), strings.Join(head(d, 8), "; ")), nil, "abort-changed-db:"+e.op()+":"+strings.Join(e.app(), "+"))
				return false
			}
			obs := env.AwaitObs(0, 0)
			for _, st := range Styles {
				if len(obs.Log[st]) > 0 {
					r.viol(j, "event-after-abort", "C07,C08", fmt.Sprintf("listener style %s received %v after a rolled-back transaction", st, obs.Log[st]), nil, "event-after-abort")
					break
				}
			}
			if obs.Txc != 0 || obs.Acts != 0 {
				r.viol(j, "action-after-abort", "C07,C08", fmt.Sprintf("tx-complete=%d commit-actions=%d after a rolled-back transaction", obs.Txc, obs.Acts), nil, "action-after-abort")
			}
		} else {
			r.TxCommitted++
			if txErr != nil {
				r.viol(j, "commit-error", "C07", fmt.Sprintf("model commits, Db returned %v", txErr), nil, "commit-error")
				return false
			}
			if r.blind {
				i = j + 1
				continue
			}
			want := modelEvents(e.Last)
			wantActs := 0
			fmt.Sscan(str(e.Last["acts"]), &wantActs)
			wantTxc := 0
			fmt.Sscan(str(e.Last["txc"]), &wantTxc)
			obs := env.AwaitObs(len(want), wantActs)
			r.EventsChecked += len(want)
			for _, st := range Styles {
				w := want
				if st == "idOnly" {
					w = stripPayload(want)
				}
				if st == "idAny" || st == "untypedAny" {
					w = anyType(stripPayload(want))
				}
				got := obs.Log[st]
				if strings.Join(got, " ") != strings.Join(w, " ") {
					r.viol(j, "events", "C08", fmt.Sprintf("listener style %s: got [%s] want [%s]", st, strings.Join(got, " "), strings.Join(w, " ")), nil, "events:"+st+":"+eventSig(got, w))
					break
				}
			}
			if obs.Acts != wantActs {
				r.viol(j, "commit-actions", "C08", fmt.Sprintf("commit actions run %d, want %d", obs.Acts, wantActs), nil, "commit-actions")
			}
			if obs.Txc != wantTxc {
				r.viol(j, "tx-complete", "C08", fmt.Sprintf("tx-complete listener invoked %d times, want %d", obs.Txc, wantTxc), nil, "tx-complete")
			}
		}
		if r.blind {
			i = j + 1
			continue
		}
		// committed / restored state
		diffs := project.Compare(project.ModelFacts(e.Db), project.StoreFacts(r.dumpLive(), env.Tok))
		if len(diffs) > 0 {
			owners := diffOwners(diffs)
			if e.res() == "fail" {
				owners = "C07"
			}
			r.viol(j, "state-after-tx", owners, fmt.Sprintf("after %s", e.op()), diffs, diffSig("state", e, diffs))
			return false
		}
		if r.Deep {
			if !r.deepCheck(j, e) {
				return false
			}
		}
		i = j + 1
	}
	return true
}

func (r *Runner) foreign(owners string) bool {
	if r.Prop == "" {
		return false
	}
	for _, o := range strings.Split(owners, ",") {
		if o == r.Prop || o == "core" {
			return false
		}
	}
	return true
}

func prevDb(steps []Step, at int) map[string]any {
	if at > 0 {
		return steps[at-1].Db
	}
	return nil
}

func presentIds(db map[string]any, key string) map[string]bool {
	out := map[string]bool{}
	switch v := db[key].(type) {
	case map[string]any:
		for id, e := range v {
			if m, ok := e.(map[string]any); ok && m["none"] == nil {
				out[id] = true
			}
		}
	case []any:
		for _, id := range v {
			out[fmt.Sprint(id)] = true
		}
	}
	return out
}

// residue is C06's own observation and needs no model state beyond "which ids did this call delete": after a delete
// the id must not occur anywhere in the file (as key, typed key, bucket name, value or typed value)
func (r *Runner) residue(at int, tx *bbolt.Tx, before map[string]any, s *Step) {
	if before == nil || (s.op() != "delete" && s.op() != "deleteTeam" && s.op() != "deleteWhere") {
		return
	}
	var gone []string
	for _, key := range []string{"ent", "tms"} {
		was, is := presentIds(before, key), presentIds(s.Db, key)
		for id := range was {
			if !is[id] {
				gone = append(gone, id)
			}
		}
	}
	r.residueOf(at, tx, s, gone)
}

// residueOf scans the raw file for the given (model) ids, which a call has just deleted
func (r *Runner) residueOf(at int, tx *bbolt.Tx, s *Step, gone []string) {
	if len(gone) == 0 {
		return
	}
	root := project.Dump(tx)
	for _, id := range gone {
		real := r.Env.Tok.Real(id)
		if r.Env.Tok.Shared(real) {
			continue // the same string is also an id of the other store: an occurrence says nothing (the state comparison still applies)
		}
		// a value equal to the id is residue only where ids are stored: name/nick/grade values live in ent/*/name.. and in the unique indexes
		occ := root.Occurrences(real, func(path []string) bool {
			last := path[len(path)-1]
			if last == "name" || last == "nick" || last == schema.KNick || last == "grade" {
				return true
			}
			if len(path) >= 4 && path[1] == "indexes" && (path[3] == "name" || path[3] == "nick" || path[3] == "grade") {
				return true
			}
			return false
		})
		if len(occ) > 0 {
			r.viol(at, "residue", "C06", fmt.Sprintf("after %s %v the deleted id %s still occurs: %s", s.op(), s.args(), id, strings.Join(head(occ, 6), "; ")), nil, "residue:"+s.op())
		}
	}
}

func eventSig(got, want []string) string {
	// what kind of disagreement: missing / extra / payload
	g := strings.Join(stripPayload(got), " ")
	w := strings.Join(stripPayload(want), " ")
	switch {
	case g == w:
		return "payload"
	case len(got) < len(want):
		return "missing"
	case len(got) > len(want):
		return "extra"
	}
	return "different"
}

func head(xs []string, n int) []string {
	if len(xs) > n {
		return xs[:n]
	}
	return xs
}

func (r *Runner) dumpLive() *project.Node {
	var n *project.Node
	_ = r.Env.Db.View(func(tx *bbolt.Tx) error {
		n = project.Dump(tx)
		return nil
	})
	return n
}
