package storerun

import (
	"context"
	"fmt"
	"math/rand"
	"sort"
	"strconv"
	"strings"

	"github.com/openziti/storage/boltz"
	"verif/harness/internal/project"
)

// Trace direction (StoreTrace.tla): a random driver calls the real stores and logs one line per call with the complete abstract
// state afterwards; TLC decides whether every line is a step of the specification.

type Universe struct {
	Ids    []string `json:"ids"`
	Teams  []string `json:"teams"`
	Names  []string `json:"names"`
	Nicks  []string `json:"nicks"`
	Roles  []string `json:"roles"`
	Grades []string `json:"grades"`
}

type TraceCfg struct {
	U              Universe `json:"universe"`
	Vias           []string `json:"vias"`
	Ops            []string `json:"ops"`
	LinksViaEntity bool     `json:"linksViaEntity"`
	Boss           bool     `json:"boss"` // the boss / team references are wired
	Team           bool     `json:"team"`
	Sys            bool     `json:"sys"`  // system contexts and system entities are used
	Veto           bool     `json:"veto"` // the vetoing constraint is armed now and then
	MaxOps         int      `json:"maxOps"`
	ChildFeatures  bool     `json:"childFeatures"`
}

func in(xs []string, x string) bool {
	for _, y := range xs {
		if x == y {
			return true
		}
	}
	return false
}

func splitList(s string) []any {
	out := []any{}
	if s == "" {
		return out
	}
	for _, x := range strings.Split(s, ",") {
		out = append(out, x)
	}
	return out
}

// DbJSON renders the facts read from the file in the shape of the `db` record of Store.tla.  Whatever has no place in that
// record (an unknown key, a value outside the universes, a missing field) is listed under "extra".
func DbJSON(f project.Facts, u Universe) map[string]any {
	used := map[string]bool{}
	var extra []any
	get := func(k string) (string, bool) {
		v, ok := f[k]
		if ok {
			used[k] = true
		}
		return v, ok
	}
	ent, ext := map[string]any{}, map[string]any{}
	backBoss, lnkPT, rcPT := map[string]any{}, map[string]any{}, map[string]any{}
	backChief, lnkST := map[string]any{}, map[string]any{}
	for _, id := range u.Ids {
		if _, ok := get("ent/" + id + "/sys"); ok {
			p := map[string]any{}
			for _, k := range []string{"name", "nick", "boss", "team"} {
				v, ok := get("ent/" + id + "/" + k)
				if !ok {
					extra = append(extra, "missing field ent/"+id+"/"+k)
					v = project.Nil
				}
				p[k] = v
			}
			p["sys"] = f["ent/"+id+"/sys"] == "true"
			r, _ := get("ent/" + id + "/roles")
			p["roles"] = splitList(r)
			ent[id] = p
		} else {
			ent[id] = map[string]any{"none": true}
		}
		if _, ok := get("ext/" + id + "/lead"); ok {
			g, ok := get("ext/" + id + "/grade")
			if !ok {
				extra = append(extra, "missing field ext/"+id+"/grade")
			}
			ext[id] = map[string]any{"lead": f["ext/"+id+"/lead"] == "true", "grade": g}
		} else {
			ext[id] = map[string]any{"none": true}
		}
		v, _ := get("backBoss/" + id)
		backBoss[id] = splitList(v)
		v, _ = get("lnkPT/" + id)
		lnkPT[id] = splitList(v)
		v, _ = get("backChief/" + id)
		backChief[id] = splitList(v)
		v, _ = get("lnkST/" + id)
		lnkST[id] = splitList(v)
		m := map[string]any{}
		for _, t := range u.Teams {
			c, _ := get("rcPT/" + id + "/" + t)
			n, _ := strconv.Atoi(c)
			m[t] = n
		}
		rcPT[id] = m
	}
	tms := []any{}
	backTeam, lnkTP, rcTP := map[string]any{}, map[string]any{}, map[string]any{}
	chief, lnkTS := map[string]any{}, map[string]any{}
	for _, t := range u.Teams {
		if _, ok := get("tms/" + t); ok {
			tms = append(tms, t)
		}
		v, _ := get("backTeam/" + t)
		backTeam[t] = splitList(v)
		v, _ = get("lnkTP/" + t)
		lnkTP[t] = splitList(v)
		v, _ = get("lnkTS/" + t)
		lnkTS[t] = splitList(v)
		c, ok := get("chief/" + t)
		if !ok {
			c = project.Nil
		}
		chief[t] = c
		m := map[string]any{}
		for _, id := range u.Ids {
			c, _ := get("rcTP/" + t + "/" + id)
			n, _ := strconv.Atoi(c)
			m[id] = n
		}
		rcTP[t] = m
	}
	uniq := func(pfx string, vals []string) map[string]any {
		m := map[string]any{}
		for _, v := range vals {
			id, ok := get(pfx + "/" + v)
			if !ok {
				id = project.Nil
			}
			m[v] = id
		}
		return m
	}
	sRoles := map[string]any{}
	sKeys := []any{}
	for _, r := range u.Roles {
		if _, ok := get("sKey/" + r); ok {
			sKeys = append(sKeys, r)
		}
		v, _ := get("sRoles/" + r)
		sRoles[r] = splitList(v)
	}
	out := map[string]any{"ent": ent, "ext": ext, "tms": tms, "uName": uniq("uName", u.Names), "uNick": uniq("uNick", u.Nicks), "uGrade": uniq("uGrade", u.Grades),
		"sRoles": sRoles, "sKeys": sKeys, "backBoss": backBoss, "backTeam": backTeam, "lnkPT": lnkPT, "lnkTP": lnkTP, "rcPT": rcPT, "rcTP": rcTP,
		"chief": chief, "backChief": backChief, "lnkST": lnkST, "lnkTS": lnkTS}
	var left []string
	for k := range f {
		if !used[k] {
			left = append(left, k+"="+f[k])
		}
	}
	sort.Strings(left)
	for _, k := range left {
		extra = append(extra, k)
	}
	if extra == nil {
		extra = []any{}
	}
	out["extra"] = extra
	return out
}

type tracer struct {
	env *Env
	cfg TraceCfg
	rng *rand.Rand
	r   *Runner
	cur map[string]any // abstract state after the last line
}

func (t *tracer) pick(xs []string) string { return xs[t.rng.Intn(len(xs))] }

func (t *tracer) subset(xs []string, max int) []any {
	out := []any{}
	for _, x := range xs {
		if len(out) < max && t.rng.Intn(3) == 0 {
			out = append(out, x)
		}
	}
	return out
}

func (t *tracer) present(id string) bool {
	m, _ := t.cur["ent"].(map[string]any)[id].(map[string]any)
	return m["none"] == nil
}

func (t *tracer) hasExt(id string) bool {
	m, _ := t.cur["ext"].(map[string]any)[id].(map[string]any)
	return m["none"] == nil
}

// ids that are present / have child data / teams that exist, in the state after the last line
func (t *tracer) havePeople(child bool) []string {
	var out []string
	for _, id := range t.cfg.U.Ids {
		if (child && t.hasExt(id)) || (!child && t.present(id)) {
			out = append(out, id)
		}
	}
	return out
}

func (t *tracer) haveTeams() []string {
	var out []string
	for _, x := range t.cfg.U.Teams {
		if t.team(x) {
			out = append(out, x)
		}
	}
	return out
}

// mostly an element of `have` (when there is one), now and then any element of the universe
func (t *tracer) mostly(have, universe []string) string {
	if len(have) > 0 && t.rng.Intn(5) != 0 {
		return t.pick(have)
	}
	return t.pick(universe)
}

func (t *tracer) mostlySubset(have, universe []string, max int) []any {
	if t.rng.Intn(5) != 0 {
		out := []any{}
		for _, x := range have {
			if len(out) < max && t.rng.Intn(2) == 0 {
				out = append(out, x)
			}
		}
		return out
	}
	return t.subset(universe, max)
}

var allFields = []string{"name", "nick", "roles", "boss", "team", "teams", "lead", "grade"}

func (t *tracer) person() map[string]any {
	u := t.cfg.U
	p := map[string]any{"name": t.pick(u.Names), "nick": project.Nil, "boss": project.Nil, "team": project.Nil, "sys": false}
	if t.rng.Intn(2) == 0 {
		p["nick"] = t.pick(u.Nicks)
	}
	var roles []string
	for _, r := range u.Roles {
		if r != "" && r != "LONGR" {
			roles = append(roles, r)
		}
	}
	p["roles"] = t.subset(roles, 2)
	if t.rng.Intn(40) == 0 && in(u.Roles, "") {
		p["roles"] = []any{""}
	}
	if t.cfg.Boss && t.rng.Intn(2) == 0 {
		p["boss"] = t.mostly(t.havePeople(false), u.Ids)
	}
	if t.cfg.Team && t.rng.Intn(2) == 0 {
		p["team"] = t.mostly(t.haveTeams(), u.Teams)
	}
	if t.cfg.Sys && t.rng.Intn(8) == 0 {
		p["sys"] = true
	}
	return p
}

func (t *tracer) team(id string) bool {
	for _, x := range t.cur["tms"].([]any) {
		if x == id {
			return true
		}
	}
	return false
}

func (t *tracer) free(index, v, self string) bool {
	cur := fmt.Sprint(t.cur[index].(map[string]any)[v])
	return v != "" && (cur == project.Nil || cur == self)
}

// a rough forecast of whether the model accepts the call: the walk keeps most calls that will probably succeed and a sixth of
// the others, so that the database fills up (the verdict on every call is TLC's, not this forecast's)
func (t *tracer) likely(op string, a map[string]any) bool {
	id := fmt.Sprint(a["id"])
	switch op {
	case "create", "update":
		p := a["p"].(map[string]any)
		if (op == "create") == t.present(id) {
			return false
		}
		if op == "update" && a["via"] == "staff" && !t.hasExt(id) {
			return false
		}
		if !t.free("uName", fmt.Sprint(p["name"]), id) {
			return false
		}
		if n := fmt.Sprint(p["nick"]); n != project.Nil && !t.free("uNick", n, id) {
			return false
		}
		if b := fmt.Sprint(p["boss"]); b != project.Nil && !t.present(b) {
			return false
		}
		if tm := fmt.Sprint(p["team"]); tm != project.Nil && !t.team(tm) {
			return false
		}
		if x, ok := a["x"].(map[string]any); ok && x["none"] == nil && !t.free("uGrade", fmt.Sprint(x["grade"]), id) {
			return false
		}
		if lt, ok := a["lt"].([]any); ok {
			for _, k := range lt {
				if k != project.Nil && !t.team(fmt.Sprint(k)) {
					return false
				}
			}
		}
		return a["veto"] != true && p["sys"] != true
	case "delete":
		return t.present(id) && a["veto"] != true
	case "createTeam", "updateTeam":
		if c := fmt.Sprint(a["chief"]); c != project.Nil && !t.hasExt(c) {
			return false
		}
		return (op == "createTeam") != t.team(id)
	case "deleteTeam":
		return t.team(id)
	case "addLinks", "removeLinks", "setLinks":
		side := fmt.Sprint(a["side"])
		people := side == "people" || side == "staff"
		here := func(x string) bool {
			if side == "staff" || side == "squads" {
				return t.hasExt(x)
			}
			return t.present(x)
		}
		if (people && !here(id)) || (!people && !t.team(id)) {
			return false
		}
		for _, k := range a["keys"].([]any) {
			if (people && !t.team(fmt.Sprint(k))) || (!people && !here(fmt.Sprint(k))) {
				return op == "removeLinks"
			}
		}
		return true
	case "addLink", "removeLink", "rcInc", "rcDec", "rcSet":
		return t.present(id) && t.team(fmt.Sprint(a["key"]))
	}
	return true
}

// one random call, in the vocabulary of the model
func (t *tracer) call() (string, map[string]any) {
	for {
		op, a := t.draw()
		if t.likely(op, a) || t.rng.Intn(6) == 0 {
			return op, a
		}
	}
}

func (t *tracer) draw() (string, map[string]any) {
	u := t.cfg.U
	for {
		op := t.pick(t.cfg.Ops)
		a := map[string]any{}
		osys := t.cfg.Sys && t.rng.Intn(10) == 0
		veto := t.cfg.Veto && t.rng.Intn(25) == 0
		switch op {
		case "create", "update":
			via, id := t.pick(t.cfg.Vias), t.pick(u.Ids)
			if op == "create" {
				if t.present(id) && t.rng.Intn(4) != 0 {
					continue // mostly fresh ids
				}
				// DESIGN 3.2: Create through the child store is issued for fresh ids (or ids that already have child data) only
				if via == "staff" && t.present(id) && !t.hasExt(id) {
					via = "people"
				}
			} else if !t.present(id) && t.rng.Intn(6) != 0 {
				continue
			}
			a["via"], a["id"], a["p"], a["veto"], a["osys"] = via, id, t.person(), veto, osys
			if via == "staff" {
				a["x"] = map[string]any{"lead": t.rng.Intn(2) == 0, "grade": t.pick(u.Grades)}
			} else {
				a["x"] = map[string]any{"none": true}
			}
			a["lt"] = []any{project.Nil}
			if t.cfg.LinksViaEntity {
				a["lt"] = t.subset(u.Teams, 3)
			}
			if op == "update" {
				fields := []any{}
				if t.rng.Intn(2) == 0 {
					for _, f := range allFields {
						fields = append(fields, f)
					}
				} else {
					for _, f := range allFields {
						if t.rng.Intn(4) == 0 {
							fields = append(fields, f)
						}
					}
					if len(fields) == 0 {
						fields = append(fields, t.pick(allFields))
					}
				}
				a["fields"] = fields
			}
		case "delete":
			id := t.pick(u.Ids)
			if !t.present(id) && t.rng.Intn(6) != 0 {
				continue
			}
			a["via"], a["id"], a["veto"], a["osys"] = t.pick(t.cfg.Vias), id, veto, osys
		case "deleteWhere":
			via := t.pick(t.cfg.Vias)
			a["via"], a["osys"] = via, osys
			switch k := t.rng.Intn(4); {
			case k == 0:
				a["k"], a["v"] = "all", ""
			case k == 1 && via == "staff":
				a["k"], a["v"] = "grade", t.pick(u.Grades)
			default:
				n := t.pick(u.Names)
				if n == "" || n == "LONG" {
					continue
				}
				a["k"], a["v"] = "name", n
			}
		case "createTeam", "updateTeam":
			a["id"], a["chief"] = t.pick(u.Teams), project.Nil
			if op == "updateTeam" {
				if !t.cfg.ChildFeatures {
					continue
				}
				a["id"] = t.mostly(t.haveTeams(), u.Teams)
			}
			if t.cfg.ChildFeatures && t.rng.Intn(2) == 0 {
				a["chief"] = t.mostly(t.havePeople(true), u.Ids)
			}
		case "deleteTeam":
			a["id"], a["osys"] = t.mostly(t.haveTeams(), u.Teams), osys
		case "addLinks", "removeLinks", "setLinks":
			people := t.rng.Intn(2) == 0
			child := t.cfg.ChildFeatures && t.rng.Intn(2) == 0 // the collection registered on the child store
			if people {
				a["side"], a["id"], a["keys"] = "people", t.mostly(t.havePeople(child), u.Ids), t.mostlySubset(t.haveTeams(), u.Teams, 3)
				if child {
					a["side"] = "staff"
				}
			} else {
				a["side"], a["id"], a["keys"] = "teams", t.mostly(t.haveTeams(), u.Teams), t.mostlySubset(t.havePeople(child), u.Ids, 3)
				if child {
					a["side"] = "squads"
				}
			}
		case "addLink", "removeLink", "rcInc", "rcDec":
			a["id"], a["key"] = t.mostly(t.havePeople(false), u.Ids), t.mostly(t.haveTeams(), u.Teams)
		case "rcSet":
			a["id"], a["key"], a["count"] = t.mostly(t.havePeople(false), u.Ids), t.mostly(t.haveTeams(), u.Teams), t.rng.Intn(4)
		default:
			continue
		}
		return op, a
	}
}

// the return value the way TLC's ToString prints the model's
func tlaRet(ret string) string {
	switch ret {
	case "true":
		return "TRUE"
	case "false":
		return "FALSE"
	}
	if _, err := strconv.Atoi(ret); err == nil {
		return ret
	}
	return strconv.Quote(ret)
}

func (t *tracer) live() map[string]any {
	return DbJSON(project.StoreFacts(t.r.dumpLive(), t.env.Tok), t.cfg.U)
}

// RunTrace makes txs random transactions on a fresh environment and hands every line to emit.
func RunTrace(env *Env, cfg TraceCfg, rng *rand.Rand, txs int, emit func(map[string]any)) (lines int, err error) {
	t := &tracer{env: env, cfg: cfg, rng: rng, r: &Runner{Env: env}}
	t.cur = t.live()
	out := func(m map[string]any) {
		if m["evs"] == nil {
			m["evs"], m["txc"] = []any{}, 0
		}
		if m["lost"] == nil {
			m["lost"] = false
		}
		lines++
		t.cur = m["db"].(map[string]any)
		emit(m)
	}
	for n := 0; n < txs; n++ {
		sys := cfg.Sys && rng.Intn(6) == 0
		out(map[string]any{"op": "begin", "a": map[string]any{"kind": "update", "sys": sys}, "res": "ok", "cls": "", "ret": "", "db": t.cur})
		var mctx boltz.MutateContext = boltz.NewMutateContext(context.Background())
		if sys {
			mctx = mctx.GetSystemContext()
		}
		nops := 1 + rng.Intn(max(cfg.MaxOps, 1))
		callerErr := rng.Intn(12) == 0
		var failed map[string]any
		var harness error
		env.ResetObs()
		txErr := env.Db.Update(mctx, func(ctx boltz.MutateContext) error {
			for k := 0; k < nops; k++ {
				op, a := t.call()
				s := &Step{Last: map[string]any{"op": op, "a": a}}
				ret, err := t.r.exec(ctx, s, rng.Intn(1000))
				if err != nil {
					if strings.HasPrefix(err.Error(), "harness:") {
						harness = err
					}
					failed = map[string]any{"op": op, "a": a, "res": "fail", "cls": Classify(err), "ret": ""}
					return err
				}
				out(map[string]any{"op": op, "a": a, "res": "ok", "cls": "", "ret": tlaRet(ret),
					"db": DbJSON(project.StoreFacts(project.Dump(ctx.Tx()), env.Tok), cfg.U)})
			}
			if callerErr {
				return ErrCaller
			}
			return nil
		})
		if harness != nil {
			return lines, harness
		}
		after := t.live()
		// what the (synchronous, typed) listeners were handed, and how often the tx-complete listener ran
		obs := env.snapshotObs()
		evs := []any{}
		for _, e := range obs.Log["typed"] {
			evs = append(evs, e)
		}
		ended := func(m map[string]any) map[string]any {
			m["evs"], m["txc"] = evs, obs.Txc
			return m
		}
		switch {
		case failed != nil:
			if txErr == nil {
				failed["lost"] = true // the body returned an error, Update returned nil
			}
			failed["db"] = after
			out(ended(failed))
		case callerErr:
			out(ended(map[string]any{"op": "callerError", "a": map[string]any{"k": 0}, "res": "fail", "cls": "caller", "ret": "", "db": after, "lost": txErr == nil}))
		default:
			res, cls := "ok", ""
			if txErr != nil {
				res, cls = "fail", Classify(txErr)
			}
			out(ended(map[string]any{"op": "commit", "a": map[string]any{"k": 0}, "res": res, "cls": cls, "ret": "", "db": after}))
		}
	}
	return lines, nil
}
