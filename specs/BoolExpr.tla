------------------------------ MODULE BoolExpr ------------------------------
(***************************************************************************)
(* C12: how boolean connectives group.  Expressions are trees over         *)
(* and / or / not with anonymous atoms (numbered left to right when        *)
(* rendered); Render writes a tree as the token sequence of the filter     *)
(* language using parentheses only where the intended grouping needs them: *)
(* `and` binds tighter than `or`, chains of one connective need no         *)
(* parentheses whichever way the tree leans, `not` always takes a          *)
(* parenthesised operand.  Table(t) is the truth table of the tree.        *)
(* Theorem checked by TLC (Unambiguous): two trees with the same rendering *)
(* have the same truth table -- i.e. the rendering conventions are a sound *)
(* statement of the documented grouping rules.  Every (tokens, table) pair *)
(* is then replayed through the real parser and evaluator, in several      *)
(* re-spellings (keyword case, white space, redundant parentheses).        *)
(*                                                                         *)
(* Dev "rightNested": the shipped grammar gives `and` and `or` no relative *)
(* precedence -- an unparenthesised operand sequence x1 o1 x2 o2 x3 ...    *)
(* groups to the right, x1 o1 (x2 o2 (x3 ...)), and `not (P) o Q` is read  *)
(* as not ((P) o Q) -- known finding; with the deviation on, Table follows *)
(* that reading for such chains so that everything else stays checked      *)
(* exactly.                                                                *)
(***************************************************************************)
EXTENDS Naturals, Sequences, FiniteSets, TLC, Json

CONSTANTS MaxLeaves, Dev, Mode

A == [k |-> "atom"]
Not(e) == [k |-> "not", e |-> e]
Bin(op, l, r) == [k |-> op, l |-> l, r |-> r]

RECURSIVE T(_)
T(n) == IF n = 1 THEN {A, Not(A)}
        ELSE UNION {{Bin(op, l, r) : op \in {"and", "or"}, l \in T(j), r \in T(n - j)} \cup
                    {Not(Bin(op, l, r)) : op \in {"and", "or"}, l \in T(j), r \in T(n - j)} : j \in 1..(n - 1)}
\* the trees without `not`: at the quick bound (three leaves) the four-leaf ones are added, so that a group of one connective
\* sits in the middle of a chain of the other (a and (b or c) and d, a or (b and c) or d, ...)
RECURSIVE PT(_)
PT(n) == IF n = 1 THEN {A} ELSE UNION {{Bin(op, l, r) : op \in {"and", "or"}, l \in PT(j), r \in PT(n - j)} : j \in 1..(n - 1)}
\* (plus double negations on top of one- to three-leaf trees)
Trees == UNION {T(n) : n \in 1..MaxLeaves} \cup (IF MaxLeaves = 3 THEN PT(4) ELSE {}) \cup {Not(Not(u)) : u \in UNION {T(n) : n \in 1..(IF MaxLeaves > 3 THEN 3 ELSE MaxLeaves)}}

RECURSIVE Leaves(_)
Leaves(t) == CASE t.k = "atom" -> 1 [] t.k = "not" -> Leaves(t.e) [] OTHER -> Leaves(t.l) + Leaves(t.r)

\* value of tree t when its leaves are numbered from `from` and leaf i has value asg[i]
RECURSIVE Val(_, _, _)
Val(t, from, asg) == CASE t.k = "atom" -> asg[from]
                       [] t.k = "not" -> ~Val(t.e, from, asg)
                       [] t.k = "and" -> Val(t.l, from, asg) /\ Val(t.r, from + Leaves(t.l), asg)
                       [] t.k = "or" -> Val(t.l, from, asg) \/ Val(t.r, from + Leaves(t.l), asg)

\* rendering: P(x) parenthesises
P(x) == <<"(">> \o x \o <<")">>
RECURSIVE Render(_)
Render(t) ==
  CASE t.k = "atom" -> <<"A">>
    [] t.k = "not" -> <<"not">> \o P(Render(t.e))
    [] t.k = "or" -> Render(t.l) \o <<"or">> \o Render(t.r)                                   \* operands of `or` never need parentheses
    [] t.k = "and" -> (IF t.l.k = "or" THEN P(Render(t.l)) ELSE Render(t.l)) \o <<"and">> \o
                      (IF t.r.k = "or" THEN P(Render(t.r)) ELSE Render(t.r))

\* ---- the right-nesting reading of an unparenthesised operand sequence (Dev "rightNested")
\* operands(t): the top-level chain of t as rendered without parentheses: sequence of <<operand tree, connective before it>>
RECURSIVE Chain(_)
Chain(t) == IF t.k \in {"and", "or"}
            THEN LET l == IF t.k = "and" /\ t.l.k = "or" THEN <<[x |-> t.l, grouped |-> TRUE]>> ELSE Chain(t.l)
                     r == IF t.k = "and" /\ t.r.k = "or" THEN <<[x |-> t.r, grouped |-> TRUE]>> ELSE Chain(t.r)
                 IN l \o <<[op |-> t.k]>> \o r
            ELSE <<[x |-> t, grouped |-> FALSE]>>
\* value of an unparenthesised chain c (operands and connectives alternating) read right-nested
RECURSIVE ValTree(_, _, _), ValChainRN(_, _, _)
ValChainRN(c, from, asg) ==
  IF Len(c) = 1 THEN ValTree(c[1].x, from, asg)
  ELSE LET head == c[1].x
           \* `not (e) o rest` : the shipped grammar gives `not` the lowest precedence, its operand is everything that follows
           wide == head.k = "not"
           lv == IF wide THEN ValTree(head.e, from, asg) ELSE ValTree(head, from, asg)
           rv == ValChainRN(SubSeq(c, 3, Len(c)), from + Leaves(head), asg)
           v  == IF c[2].op = "and" THEN lv /\ rv ELSE lv \/ rv
       IN IF wide THEN ~v ELSE v
ValTree(t, from, asg) ==
  CASE t.k = "atom" -> asg[from]
    [] t.k = "not" -> ~ValTree(t.e, from, asg)
    [] OTHER -> ValChainRN(Chain(t), from, asg)

Assignments(n) == [1..n -> BOOLEAN]
Table(t) == LET n == Leaves(t) IN
            [asg \in Assignments(n) |-> IF "rightNested" \in Dev THEN ValTree(t, 1, asg) ELSE Val(t, 1, asg)]
StrictTable(t) == [asg \in Assignments(Leaves(t)) |-> Val(t, 1, asg)]

\* is the top-level chain of some sub-expression mixed (both connectives, no parentheses between them)?
RECURSIVE Mixed(_)
MixedChain(c) == \/ {c[i].op : i \in {j \in 1..Len(c) : "op" \in DOMAIN c[j]}} = {"and", "or"}
                 \/ \E i \in 1..(Len(c) - 1) : "x" \in DOMAIN c[i] /\ c[i].x.k = "not"      \* `not (P) or Q`
Mixed(t) == CASE t.k = "atom" -> FALSE [] t.k = "not" -> Mixed(t.e)
              [] OTHER -> MixedChain(Chain(t)) \/ \E i \in 1..Len(Chain(t)) : "x" \in DOMAIN Chain(t)[i] /\ Mixed(Chain(t)[i].x)

VARIABLES t, n
Init == t \in Trees /\ n = 0
Next == n = 0 /\ n' = 1 /\ UNCHANGED t

\* the rendering conventions are unambiguous under the documented rules (checked with Dev = {})
Unambiguous == \A u \in Trees : Render(u) = Render(t) => StrictTable(u) = StrictTable(t)

\* emission: tokens, number of atoms, truth table as the sequence of values for assignments in binary counting order
BitsOf(k, w) == [i \in 1..w |-> ((k \div (2 ^ (w - i))) % 2) = 1]
TableSeq(tb, w) == [k \in 1..(2 ^ w) |-> tb[BitsOf(k - 1, w)]]
Emit == n = 1 => PrintT(ToJson([toks |-> Render(t), atoms |-> Leaves(t), table |-> TableSeq(Table(t), Leaves(t)),
                                strict |-> TableSeq(StrictTable(t), Leaves(t)), mixed |-> Mixed(t)]))
=============================================================================
