------------------------------- MODULE Bucket -------------------------------
(***************************************************************************)
(* C13.  (1) A typed bucket as a keyed store of typed values: a write      *)
(* through a field checker touches exactly the fields the checker selects; *)
(* what is read back later is the value written (with the documented       *)
(* normalisations, applied by the harness when it maps a token to a Go     *)
(* value: int32 may be read as int64, times compare as instants, string    *)
(* lists come back sorted and duplicate-free); null is its own value,      *)
(* distinct from the empty string; replacing a map or list replaces it     *)
(* wholesale; a scalar cannot be written over a name that holds a nested   *)
(* structure (or the other way round) -- the storage layer refuses it.     *)
(* Values are tokens of a table shared with the harness (boundary          *)
(* integers, special floats, arbitrary bytes, times in three zones, nested *)
(* maps and lists); the token's prefix is its kind.                        *)
(* (The compound-key codec is in Codec.tla.)                               *)
(***************************************************************************)
EXTENDS Naturals, Sequences, FiniteSets, TLC, Json

CONSTANTS Fields, Tokens, MaxWrites

Absent == "absent"
\* tokens whose value is stored as a sub-bucket (maps, lists, string lists); all other tokens are scalars (incl. nil)
NestedTokens == {"m:empty", "m:flat", "m:nested", "l:empty", "l:mixed", "l:nested", "l:long", "z:empty", "z:one", "z:dups", "z:bytes", "z:ab", "z:aa", "z:ba"}
IsNested(tok) == tok \in NestedTokens

Checkers == {Fields} \cup {{f} : f \in Fields} \cup {{}}          \* nil checker (all fields), one field, nothing selected

\* a write call sets every field of `vals` (field -> token) through checker c
\* result: new bucket, or "storage" when a selected write changes scalar <-> nested on an existing name
WriteOutcome(bk, vals, c) ==
  LET sel == {f \in DOMAIN vals : f \in c}
      clash == \E f \in sel : bk[f] # Absent /\ IsNested(bk[f]) # IsNested(vals[f])
  IN IF clash THEN [err |-> "storage", bk |-> bk]
     ELSE [err |-> "ok", bk |-> [f \in Fields |-> IF f \in sel THEN vals[f] ELSE bk[f]]]

VARIABLES bk, hist
Init == bk = [f \in Fields |-> Absent] /\ hist = << >>
Next == /\ Len(hist) < MaxWrites
        /\ \E c \in Checkers : \E vals \in [Fields -> Tokens] :
             LET o == WriteOutcome(bk, vals, c) IN
             /\ bk' = o.bk
             /\ hist' = Append(hist, [vals |-> vals, checker |-> c, all |-> (c = Fields), err |-> o.err, after |-> o.bk])
\* frame condition: a write never changes a field its checker does not select
Frame == [][\A f \in Fields : f \notin hist'[Len(hist')].checker => bk'[f] = bk[f]]_<<bk, hist>>
Emit == (Len(hist) = MaxWrites) => PrintT(ToJson([steps |-> hist]))
=============================================================================
