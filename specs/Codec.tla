------------------------------- MODULE Codec -------------------------------
(***************************************************************************)
(* C13, compound keys: a list of byte strings is encoded as the            *)
(* concatenation of uvarint(length) . bytes; Decode inverts it, hence      *)
(* distinct lists never share an encoding.  A string is a run-length       *)
(* record [n |-> length, c |-> byte] (n copies of byte c) so that the      *)
(* 127/128 (one- vs two-byte length prefix) and 4096/4097 (largest legal   *)
(* component) boundaries are reachable; encoded bytes are run-length pairs *)
(* <<count, byte>>.                                                        *)
(***************************************************************************)
EXTENDS Naturals, Sequences, FiniteSets, TLC, Json

CONSTANTS Lens, MaxList

RECURSIVE Uvarint(_)
Uvarint(k) == IF k < 128 THEN <<k>> ELSE <<128 + (k % 128)>> \o Uvarint(k \div 128)
Runs(bytes) == [i \in 1..Len(bytes) |-> <<1, bytes[i]>>]
EncodeOne(s) == Runs(Uvarint(s.n)) \o (IF s.n = 0 THEN << >> ELSE << <<s.n, s.c>> >>)
RECURSIVE Encode(_)
Encode(l) == IF l = << >> THEN << >> ELSE EncodeOne(l[1]) \o Encode(Tail(l))

\* decoding works on the expanded view: total length and a cursor; modelled on the run list
RECURSIVE Value(_, _)
Value(bytes, k) == IF bytes = << >> \/ bytes[1] < 128 THEN (IF bytes = << >> THEN 0 ELSE bytes[1] * k)
                   ELSE (bytes[1] - 128) * k + Value(Tail(bytes), k * 128)
\* Decode(runs): read a uvarint (single-byte runs until one < 128), then one run of that length
RECURSIVE Decode(_)
Decode(r) ==
  IF r = << >> THEN << >>
  ELSE LET hd == CHOOSE j \in 1..Len(r) : r[j][2] < 128 /\ \A i \in 1..(j - 1) : r[i][2] >= 128      \* end of the length prefix
           len == Value([i \in 1..hd |-> r[i][2]], 1)
       IN IF len = 0 THEN <<[n |-> 0, c |-> 0]>> \o Decode(SubSeq(r, hd + 1, Len(r)))
          ELSE <<[n |-> len, c |-> r[hd + 1][2]]>> \o Decode(SubSeq(r, hd + 2, Len(r)))

Strs == {[n |-> 0, c |-> 0]} \cup {[n |-> k, c |-> b] : k \in Lens \ {0}, b \in {97, 200}}
Lists == UNION {[1..k -> Strs] : k \in 0..MaxList}

VARIABLES l, m
Init == l \in Lists /\ m = 0
Next == m = 0 /\ m' = 1 /\ UNCHANGED l
RoundTrip == Decode(Encode(l)) = l
Emit == m = 1 => PrintT(ToJson([list |-> l, encoded |-> Encode(l)]))
=============================================================================
