------------------------------- MODULE Cursor -------------------------------
(***************************************************************************)
(* C14: a set cursor as a state machine.  Elements are ranks 1..9 standing *)
(* for the byte strings  1 ""  2 "0"  3 "a"  4 "a\x00"  5 "aa"  6 "ab"     *)
(* 7 "b"  8 "c"  9 "d"  (rank order = byte order; 2, 5 and 9 are used as   *)
(* seek targets only).  The machine is operational -- a position in the    *)
(* ordered element sequence moved by Open / Next / Seek -- and the laws of  *)
(* the property are stated declaratively and checked by TLC against it     *)
(* over every set, direction and operation sequence within the bound.      *)
(* The same runs are emitted as cases: every cursor kind the library hands *)
(* out is driven through them and must show the same (valid, current)      *)
(* after every operation.                                                  *)
(***************************************************************************)
EXTENDS Naturals, Sequences, FiniteSets, TLC, Json, SequencesExt

CONSTANTS Universe,     \* ranks that may be elements
          Targets,      \* ranks used as seek targets
          MaxOps,
          Seekable      \* BOOLEAN: generate Seek operations

Ordered(S, fwd) == IF fwd THEN SetToSortSeq(S, <) ELSE SetToSortSeq(S, >)

\* ---- the machine: pos in 1..Len+1, Len+1 = exhausted / invalid
Open(E) == 1
DoNext(E, pos) == IF pos > Len(E) THEN pos ELSE pos + 1
\* forward: first element >= v ; reverse (E is descending): first element <= v
DoSeek(E, fwd, v) == LET hits == {i \in 1..Len(E) : IF fwd THEN E[i] >= v ELSE E[i] <= v}
                     IN IF hits = {} THEN Len(E) + 1 ELSE CHOOSE i \in hits : \A j \in hits : i <= j
Obs(E, pos) == IF pos > Len(E) THEN [valid |-> FALSE, cur |-> 0] ELSE [valid |-> TRUE, cur |-> E[pos]]

Ops == {[op |-> "next", v |-> 0]} \cup (IF Seekable THEN {[op |-> "seek", v |-> v] : v \in Targets} ELSE {})
OpSeqs == UNION {[1..k -> Ops] : k \in 0..MaxOps}

\* run an operation sequence; result: observations after Open and after every operation
RECURSIVE RunFrom(_, _, _, _)
RunFrom(E, fwd, pos, ops) ==
  IF ops = << >> THEN << >>
  ELSE LET p == IF ops[1].op = "next" THEN DoNext(E, pos) ELSE DoSeek(E, fwd, ops[1].v)
       IN <<Obs(E, p)>> \o RunFrom(E, fwd, p, Tail(ops))
Run(S, fwd, ops) == LET E == Ordered(S, fwd) IN <<Obs(E, Open(E))>> \o RunFrom(E, fwd, Open(E), ops)

VARIABLES S, fwd, ops, n
Init == S \in SUBSET Universe /\ fwd \in BOOLEAN /\ ops \in OpSeqs /\ n = 0
Next == n = 0 /\ n' = 1 /\ UNCHANGED <<S, fwd, ops>>

\* ---- the laws, declaratively
\* enumeration: Open followed by Nexts visits exactly the elements, once each, in order, then stays invalid
AllNext(k) == [i \in 1..k |-> [op |-> "next", v |-> 0]]
EnumerationLaw ==
  LET k == Cardinality(S) + 2
      r == Run(S, fwd, AllNext(k))
      visited == [i \in 1..Cardinality(S) |-> r[i].cur]
  IN /\ \A i \in 1..Cardinality(S) : r[i].valid
     /\ {visited[i] : i \in 1..Cardinality(S)} = S
     /\ \A i \in 1..(Cardinality(S) - 1) : IF fwd THEN visited[i] < visited[i + 1] ELSE visited[i] > visited[i + 1]
     /\ \A i \in (Cardinality(S) + 1)..(k + 1) : ~r[i].valid
\* seek: wherever the cursor was, after Seek(v) it stands on min{e >= v} (max{e <= v} in reverse) or is invalid if there is none;
\* a Next then goes to the following element in order
SeekLaw ==
  LET r == Run(S, fwd, ops)
  IN \A i \in 1..Len(ops) :
       ops[i].op = "seek" =>
         LET cand == {e \in S : IF fwd THEN e >= ops[i].v ELSE e <= ops[i].v}
             o == r[i + 1]
         IN IF cand = {} THEN ~o.valid
            ELSE o.valid /\ o.cur \in cand /\ \A e \in cand : IF fwd THEN o.cur <= e ELSE o.cur >= e
\* every observation names an element of the set; invalid is absorbing for Next
Sanity == LET r == Run(S, fwd, ops) IN
          /\ \A i \in 1..Len(r) : r[i].valid => r[i].cur \in S
          /\ \A i \in 1..Len(ops) : (ops[i].op = "next" /\ ~r[i].valid) => ~r[i + 1].valid

Emit == n = 1 => PrintT(ToJson([set |-> S, fwd |-> fwd, ops |-> ops, obs |-> Run(S, fwd, ops)]))
=============================================================================
