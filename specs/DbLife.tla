------------------------------- MODULE DbLife -------------------------------
(***************************************************************************)
(* C17: the life cycle of a boltz.Db -- transactions, Snapshot, Restore,   *)
(* snapshot id, timeline id -- and the lock protocol that keeps a          *)
(* transaction from straddling the file swap of a restore.                 *)
(*                                                                         *)
(* Sequential part.  The logical content of the database is abstracted to  *)
(* a version number (every committed write transaction makes a new one;    *)
(* the harness makes the whole content a function of it and compares the   *)
(* complete logical file content).  meta is the `meta` bucket:             *)
(* snapshotId, resetTimeline, timelineId.  A snapshot copies the file and  *)
(* marks *the copy* (snapshot id, resetTimeline = TRUE); the source is not *)
(* changed.  Restore(s) replaces content and meta by the copy's.           *)
(* GetTimelineId(mode) asks the id function for a fresh id exactly when    *)
(* the reset marker is set or the mode forces it, and clears the marker.   *)
(*                                                                         *)
(* A restore is not one step of the code: RestoreFromReader first copies   *)
(* the stream to a temporary file (arbitrarily slow for a network stream)   *)
(* and only then takes the reload lock and swaps the file.  RestoreBegin /  *)
(* RestoreSwap model the two halves; every other call may run in between    *)
(* and still talks to the old database: the restore takes effect at the     *)
(* swap, never earlier, and nothing read in the window may survive it.      *)
(*                                                                         *)
(* Concurrent part.  Readers/writers hold the reload lock shared for the   *)
(* whole transaction, Restore holds it exclusively across close - rename - *)
(* reopen (Go's RWMutex: a waiting writer blocks new readers).  Each       *)
(* transaction samples the file generation when it starts and again later; *)
(* OneGeneration says the two samples agree and name an open file.         *)
(***************************************************************************)
EXTENDS Naturals, Sequences, FiniteSets, TLC, Json

CONSTANTS MaxVersion, MaxSnaps, MaxIds, Modes, Procs, MaxSteps,
          OpsOn,    \* which calls the sequential machine makes (subset of write, snapshot, restore, getSnapshotId, getTimelineId, window)
          Nested    \* the transactions (subset of Procs) that re-enter the reload lock while they hold it (see TxNested)

NIL == 0      \* "no id" (ids are 1, 2, ...)

-----------------------------------------------------------------------------
(* sequential machine *)
VARIABLES content,     \* version number of the logical content
          meta,        \* [snap, reset, timeline]
          snaps,       \* sequence of taken snapshots: [content, meta]  (snapshot id = index)
          nextId,      \* ids handed out by the id function so far
          notified,    \* restore-listener invocations so far
          pending,     \* the snapshot a restore in its transfer window will install (NIL: no restore under way)
          last, steps

svars == <<content, meta, snaps, nextId, notified, pending, last, steps>>

SInit == /\ content = 0
         /\ meta = [snap |-> NIL, reset |-> FALSE, timeline |-> NIL]
         /\ snaps = << >> /\ nextId = 0 /\ notified = 0 /\ pending = NIL
         /\ last = [op |-> "init"] /\ steps = 0

Write == /\ content < MaxVersion
         /\ content' = content + 1
         /\ last' = [op |-> "write", ret |-> NIL]
         /\ UNCHANGED <<meta, snaps, nextId, notified, pending>>

Snapshot == /\ Len(snaps) < MaxSnaps
            /\ snaps' = Append(snaps, [content |-> content, meta |-> [meta EXCEPT !.snap = Len(snaps) + 1, !.reset = TRUE]])
            /\ last' = [op |-> "snapshot", ret |-> Len(snaps) + 1]
            /\ UNCHANGED <<content, meta, nextId, notified, pending>>

Restore(s) == /\ s \in 1..Len(snaps) /\ pending = NIL
              /\ content' = snaps[s].content
              /\ meta' = snaps[s].meta
              /\ notified' = notified + 1
              /\ last' = [op |-> "restore", s |-> s, ret |-> NIL]
              /\ UNCHANGED <<snaps, nextId, pending>>

\* the two halves of a restore whose stream is slow: the transfer window opens ...
RestoreBegin(s) == /\ s \in 1..Len(snaps) /\ pending = NIL
                   /\ pending' = s
                   /\ last' = [op |-> "restoreBegin", s |-> s, ret |-> NIL]
                   /\ UNCHANGED <<content, meta, snaps, nextId, notified>>
\* ... and closes: lock, swap, reopen, notify
RestoreSwap == /\ pending # NIL
               /\ content' = snaps[pending].content
               /\ meta' = snaps[pending].meta
               /\ notified' = notified + 1
               /\ pending' = NIL
               /\ last' = [op |-> "restore", s |-> pending, ret |-> NIL]
               /\ UNCHANGED <<snaps, nextId>>

GetSnapshotId == /\ last' = [op |-> "getSnapshotId", ret |-> meta.snap]
                 /\ UNCHANGED <<content, meta, snaps, nextId, notified, pending>>

Forces(mode) == mode = "forceReset" \/ (mode = "initIfEmpty" /\ meta.timeline = NIL)
GetTimelineId(mode) ==
  IF meta.reset \/ Forces(mode)
  THEN /\ nextId < MaxIds
       /\ nextId' = nextId + 1
       /\ meta' = [meta EXCEPT !.timeline = nextId + 1, !.reset = FALSE]
       /\ last' = [op |-> "getTimelineId", mode |-> mode, ret |-> nextId + 1, idCalls |-> 1]
       /\ UNCHANGED <<content, snaps, notified, pending>>
  ELSE /\ last' = [op |-> "getTimelineId", mode |-> mode, ret |-> meta.timeline, idCalls |-> 0]
       /\ UNCHANGED <<content, meta, snaps, nextId, notified, pending>>

SNext == /\ steps < MaxSteps /\ steps' = steps + 1
         /\ \/ ("write" \in OpsOn /\ Write) \/ ("snapshot" \in OpsOn /\ Snapshot) \/ ("restore" \in OpsOn /\ \E s \in 1..MaxSnaps : Restore(s))
            \/ ("getSnapshotId" \in OpsOn /\ GetSnapshotId) \/ ("getTimelineId" \in OpsOn /\ \E m \in Modes : GetTimelineId(m))
            \/ ("window" \in OpsOn /\ ((\E s \in 1..MaxSnaps : RestoreBegin(s)) \/ RestoreSwap))

\* properties of the sequential machine
RestoreExact == [][last'.op = "restore" => (content' = snaps[last'.s].content /\ meta'.snap = last'.s /\ meta'.reset /\ notified' = notified + 1)]_svars
\* after a restore the next timeline request gets a fresh id exactly once, the one after it none (whatever the modes, unless forced)
FreshOnce == [][(last'.op = "getTimelineId" /\ last.op = "restore") => (last'.idCalls = 1 /\ ~meta'.reset)]_svars
NoIdWithoutCause == [][(last'.op = "getTimelineId" /\ last'.idCalls = 1) => (meta.reset \/ Forces(last'.mode))]_svars
SnapshotLeavesSourceAlone == [][last'.op = "snapshot" => (content' = content /\ meta' = meta)]_svars
\* a restore takes effect at the swap and not before: while the stream is transferred every call sees the old database
WindowIsInvisible == [][last'.op = "restoreBegin" => (content' = content /\ meta' = meta /\ notified' = notified)]_svars
\* whatever happened in the window, the swap installs exactly the snapshot (nothing read or written in the window survives)
SwapInstallsSnapshot == [][(pending # NIL /\ pending' = NIL) => (content' = snaps[pending].content /\ meta' = snaps[pending].meta)]_svars

-----------------------------------------------------------------------------
(* lock protocol (concurrent part): processes are transactions and one restorer *)
VARIABLES gen,        \* generation of the open file; 0 while the file is closed (between close and reopen)
          genCount,
          readers,    \* processes holding the reload lock shared
          writer,     \* the restorer holds it exclusively
          waiting,    \* the restorer waits for the lock: new readers are held back
          pc, sample

cvars == <<gen, genCount, readers, writer, waiting, pc, sample>>
Restorer == "restorer"

CInit == /\ gen = 1 /\ genCount = 1 /\ readers = {} /\ writer = FALSE /\ waiting = FALSE
         /\ pc = [p \in Procs \cup {Restorer} |-> "idle"]
         /\ sample = [p \in Procs |-> <<0, 0>>]

TxBegin(p) == /\ pc[p] = "idle" /\ ~writer /\ ~waiting
              /\ readers' = readers \cup {p}
              /\ pc' = [pc EXCEPT ![p] = "in"]
              /\ sample' = [sample EXCEPT ![p] = <<gen, 0>>]
              /\ UNCHANGED <<gen, genCount, writer, waiting>>
\* Db.Snapshot = View + SnapshotInTx, Migrate = Update + RootBucket + SnapshotInTx: SnapshotInTx and RootBucket take the reload
\* lock shared *again* inside a transaction that already holds it.  Go's RWMutex holds new readers back once a writer waits,
\* so the inner RLock of a transaction that started before the restore asked for the lock waits for the restore, which waits
\* for that transaction: LockDeadlockFree fails as soon as Nested # {} (an observation outside the listed properties, DESIGN 0.5).
TxNested(p) == /\ pc[p] = "in" /\ p \in Nested /\ ~writer /\ ~waiting
               /\ pc' = [pc EXCEPT ![p] = "inner"]
               /\ UNCHANGED <<gen, genCount, readers, writer, waiting, sample>>
TxRead(p) == /\ pc[p] = (IF p \in Nested THEN "inner" ELSE "in")
             /\ sample' = [sample EXCEPT ![p] = <<sample[p][1], gen>>]
             /\ pc' = [pc EXCEPT ![p] = "read"]
             /\ UNCHANGED <<gen, genCount, readers, writer, waiting>>
TxEnd(p) == /\ pc[p] = "read"
            /\ readers' = readers \ {p}
            /\ pc' = [pc EXCEPT ![p] = "done"]
            /\ UNCHANGED <<gen, genCount, writer, waiting, sample>>
RWant == /\ pc[Restorer] = "idle" /\ waiting' = TRUE /\ pc' = [pc EXCEPT ![Restorer] = "want"]
         /\ UNCHANGED <<gen, genCount, readers, writer, sample>>
RLock == /\ pc[Restorer] = "want" /\ readers = {}
         /\ writer' = TRUE /\ waiting' = FALSE /\ pc' = [pc EXCEPT ![Restorer] = "locked"]
         /\ UNCHANGED <<gen, genCount, readers, sample>>
RClose == /\ pc[Restorer] = "locked" /\ gen' = 0 /\ pc' = [pc EXCEPT ![Restorer] = "closed"]
          /\ UNCHANGED <<genCount, readers, writer, waiting, sample>>
ROpen == /\ pc[Restorer] = "closed" /\ gen' = genCount + 1 /\ genCount' = genCount + 1 /\ pc' = [pc EXCEPT ![Restorer] = "opened"]
         /\ UNCHANGED <<readers, writer, waiting, sample>>
RUnlock == /\ pc[Restorer] = "opened" /\ writer' = FALSE /\ pc' = [pc EXCEPT ![Restorer] = "idle"]
           /\ UNCHANGED <<gen, genCount, readers, waiting, sample>>

CNext == \/ \E p \in Procs : TxBegin(p) \/ TxNested(p) \/ TxRead(p) \/ TxEnd(p)
         \/ (genCount < 3 /\ RWant) \/ RLock \/ RClose \/ ROpen \/ RUnlock

\* no transaction ever sees the closed file or two different files
OneGeneration == \A p \in Procs : pc[p] \in {"read", "done"} => (sample[p][1] = sample[p][2] /\ sample[p][1] > 0)
NoTxWhileSwapping == (gen = 0) => readers = {}
\* progress of the protocol: whenever something is still to be done some step is possible
LockDeadlockFree == (\E p \in Procs \cup {Restorer} : pc[p] \notin {"idle", "done"}) => ENABLED CNext

-----------------------------------------------------------------------------
(* the three uses of this module (TLC wants every declared variable constrained) *)
VARIABLE hist
AllInit == SInit /\ CInit /\ hist = << >>
SeqNext == SNext /\ UNCHANGED <<cvars, hist>>                      \* exhaustive check of the sequential machine
LockNext == CNext /\ UNCHANGED <<svars, hist>>                    \* exhaustive check of the lock protocol
\* emission of sequential behaviours for the replay
GenNext == SNext /\ hist' = Append(hist, [last |-> last', content |-> content', meta |-> meta', notified |-> notified']) /\ UNCHANGED cvars
Emit == (steps = MaxSteps) => PrintT(ToJson([steps |-> hist]))
ViewSeq == <<content, meta, snaps, nextId, pending, last.op, steps>>
=============================================================================
