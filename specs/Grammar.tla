------------------------------ MODULE Grammar ------------------------------
(***************************************************************************)
(* C10: membership in the filter language at the level of token kinds.     *)
(* A recogniser transcribed rule by rule from zitiql/ZitiQl.g4 (explicit   *)
(* white-space tokens included): for a token sequence t and a rule R,      *)
(* R(t, i) is the set of positions at which an R starting at position i    *)
(* can end.  TLC enumerates every token sequence up to a bound over the    *)
(* token alphabet and emits (tokens, is-a-sentence); the harness renders   *)
(* the tokens, checks with the repository's lexer that the text really     *)
(* has these token kinds (adjacent word tokens fuse, `not in` is one       *)
(* token ...) and then requires: not a sentence => Parse returns an error; *)
(* never a panic; a returned query evaluates without panicking.            *)
(* UNK is a character the lexer does not know: no sentence contains it.    *)
(***************************************************************************)
EXTENDS Naturals, Sequences, FiniteSets, TLC, Json

CONSTANTS Alphabet, MaxLen, PrefixMode

Tok(t, i) == IF i <= Len(t) THEN t[i] ELSE "EOF"
Lit(t, i, K) == IF Tok(t, i) \in K THEN {i + 1} ELSE {}
RECURSIVE WsStar(_, _)
WsStar(t, i) == IF Tok(t, i) = "WS" THEN {i} \cup WsStar(t, i + 1) ELSE {i}
WsPlus(t, i) == IF Tok(t, i) = "WS" THEN WsStar(t, i + 1) ELSE {}
\* apply rule F at every position of S
Then(S, F(_)) == UNION {F(i) : i \in S}

\* X (WS* ',' WS* X)* from i, where one X is a token of kind K
RECURSIVE ListTail(_, _, _)
ListTail(t, i, K) == {i} \cup Then(Then(Then(Then(WsStar(t, i), LAMBDA a : Lit(t, a, {"COMMA"})), LAMBDA b : WsStar(t, b)), LAMBDA c : Lit(t, c, K)),
                                   LAMBDA d : ListTail(t, d, K))
\* LBRACKET WS* X (WS* ',' WS* X)* WS* RBRACKET
Array(t, i, K) == Then(Then(Then(Then(Then(Lit(t, i, {"LB"}), LAMBDA a : WsStar(t, a)), LAMBDA b : Lit(t, b, K)), LAMBDA c : ListTail(t, c, K)),
                            LAMBDA d : WsStar(t, d)), LAMBDA e : Lit(t, e, {"RB"}))
AnyArray(t, i) == Array(t, i, {"STRING"}) \cup Array(t, i, {"NUMBER"}) \cup Array(t, i, {"DATETIME"})

Skip(t, i) == Then(Then(Lit(t, i, {"SKIP"}), LAMBDA a : WsPlus(t, a)), LAMBDA b : Lit(t, b, {"NUMBER"}))
Limit(t, i) == Then(Then(Lit(t, i, {"LIMIT"}), LAMBDA a : WsPlus(t, a)), LAMBDA b : Lit(t, b, {"NONE", "NUMBER"}))
SortField(t, i) == LET a == Lit(t, i, {"IDENT"}) IN a \cup Then(Then(a, LAMBDA b : WsPlus(t, b)), LAMBDA c : Lit(t, c, {"ASC", "DESC"}))
RECURSIVE SortTail(_, _)
SortTail(t, i) == {i} \cup Then(Then(Then(Then(WsStar(t, i), LAMBDA a : Lit(t, a, {"COMMA"})), LAMBDA b : WsStar(t, b)), LAMBDA c : SortField(t, c)),
                                LAMBDA d : SortTail(t, d))
SortBy(t, i) == Then(Then(Then(Then(Then(Lit(t, i, {"SORT"}), LAMBDA a : WsPlus(t, a)), LAMBDA b : Lit(t, b, {"BY"})), LAMBDA c : WsPlus(t, c)),
                          LAMBDA d : SortField(t, d)), LAMBDA e : SortTail(t, e))

\* optional (WS+ R)
Opt(t, S, R(_)) == S \cup Then(Then(S, LAMBDA a : WsPlus(t, a)), R)

RECURSIVE BoolE(_, _), Prim(_, _), Query(_, _), SetExpr(_, _)

SetExpr(t, i) == Lit(t, i, {"IDENT"}) \cup
                 Then(Then(Then(Then(Then(Then(Lit(t, i, {"FROM"}), LAMBDA a : WsPlus(t, a)), LAMBDA b : Lit(t, b, {"IDENT"})), LAMBDA c : WsPlus(t, c)),
                                LAMBDA d : Lit(t, d, {"WHERE"})), LAMBDA e : WsPlus(t, e)), LAMBDA f : Query(t, f))

\* FN LPAREN WS* X WS* RPAREN
Call(t, i, FN, X(_)) == Then(Then(Then(Then(Then(Lit(t, i, FN), LAMBDA a : Lit(t, a, {"LP"})), LAMBDA b : WsStar(t, b)), X), LAMBDA d : WsStar(t, d)),
                             LAMBDA e : Lit(t, e, {"RP"}))
BinaryLhs(t, i) == Lit(t, i, {"IDENT"}) \cup Call(t, i, {"ALLOF", "ANYOF"}, LAMBDA c : Lit(t, c, {"IDENT"})) \cup Call(t, i, {"COUNT"}, LAMBDA c : SetExpr(t, c))

Operation(t, i) ==
  LET L == BinaryLhs(t, i)
      \* WS* op WS* operand
      Sym(ops, operands) == Then(Then(Then(Then(L, LAMBDA a : WsStar(t, a)), LAMBDA b : Lit(t, b, ops)), LAMBDA c : WsStar(t, c)), LAMBDA d : Lit(t, d, operands))
      \* WS* op WS+ operand
      Word(ops, operands) == Then(Then(Then(Then(L, LAMBDA a : WsStar(t, a)), LAMBDA b : Lit(t, b, ops)), LAMBDA c : WsPlus(t, c)), LAMBDA d : Lit(t, d, operands))
      InOp == Then(Then(Then(Then(L, LAMBDA a : WsPlus(t, a)), LAMBDA b : Lit(t, b, {"IN"})), LAMBDA c : WsPlus(t, c)), LAMBDA d : AnyArray(t, d))
      Btw(K) == Then(Then(Then(Then(Then(Then(Then(Then(L, LAMBDA a : WsPlus(t, a)), LAMBDA b : Lit(t, b, {"BETWEEN"})), LAMBDA c : WsPlus(t, c)),
                                          LAMBDA d : Lit(t, d, K)), LAMBDA e : WsPlus(t, e)), LAMBDA f : Lit(t, f, {"AND"})), LAMBDA g : WsPlus(t, g)),
                          LAMBDA h : Lit(t, h, K))
  IN InOp \cup Btw({"NUMBER"}) \cup Btw({"DATETIME"})
     \cup Sym({"LT", "GT"}, {"STRING", "NUMBER", "DATETIME"})
     \cup Sym({"EQ"}, {"STRING", "NUMBER", "DATETIME", "BOOL", "NULL"})
     \cup Word({"CONTAINS"}, {"STRING", "NUMBER"}) \cup Word({"ICONTAINS"}, {"STRING"})

Prim(t, i) ==
  Operation(t, i)
  \cup Then(Then(Then(Then(Lit(t, i, {"LP"}), LAMBDA a : WsStar(t, a)), LAMBDA b : BoolE(t, b)), LAMBDA c : WsStar(t, c)), LAMBDA d : Lit(t, d, {"RP"}))
  \cup Lit(t, i, {"BOOL"})
  \cup Call(t, i, {"ISEMPTY"}, LAMBDA c : SetExpr(t, c))
  \cup Lit(t, i, {"IDENT"})
  \cup Then(Then(Lit(t, i, {"NOT"}), LAMBDA a : WsPlus(t, a)), LAMBDA b : BoolE(t, b))

\* boolExpr: a primary followed by any number of (WS+ AND|OR WS+ boolExpr)
BoolE(t, i) == LET P == Prim(t, i) IN
               P \cup Then(Then(Then(Then(P, LAMBDA a : WsPlus(t, a)), LAMBDA b : Lit(t, b, {"AND", "OR"})), LAMBDA c : WsPlus(t, c)), LAMBDA d : BoolE(t, d))

Query(t, i) ==
  LET SL(S) == Opt(t, Opt(t, S, LAMBDA a : Skip(t, a)), LAMBDA b : Limit(t, b))
  IN SL(Opt(t, BoolE(t, i), LAMBDA a : SortBy(t, a)))
     \cup SL(SortBy(t, i))
     \cup Opt(t, Skip(t, i), LAMBDA b : Limit(t, b))
     \cup Limit(t, i)

\* start: WS* query WS* EOF
IsSentence(t) == (Len(t) + 1) \in Then(Then(WsStar(t, 1), LAMBDA a : Query(t, a)), LAMBDA b : WsStar(t, b))

Seqs(n) == UNION {[1..k -> Alphabet] : k \in 1..n}

\* prefixes that reach deeper parts of the grammar with a short enumerated suffix
Prefixes == IF PrefixMode = "none" THEN {<< >>}
            ELSE {<<"IDENT", "WS", "EQ", "WS", "NUMBER">>, <<"IDENT", "WS", "IN", "WS", "LB", "STRING">>, <<"IDENT", "WS", "BETWEEN", "WS", "NUMBER", "WS", "AND">>,
                  <<"COUNT", "LP", "FROM", "WS", "IDENT", "WS", "WHERE", "WS">>, <<"BOOL", "WS", "SORT", "WS", "BY", "WS", "IDENT">>,
                  <<"NOT", "WS", "LP", "IDENT">>, <<"ISEMPTY", "LP", "IDENT">>, <<"ANYOF", "LP", "IDENT", "RP">>, <<"BOOL", "WS", "SKIP", "WS", "NUMBER">>,
                  <<"LP", "IDENT", "WS", "OR", "WS">>, <<"IDENT", "WS", "IN", "WS", "LB", "NUMBER", "COMMA">>, <<"IDENT", "WS", "IN", "WS", "LB", "DATETIME", "COMMA">>,
                  <<"IDENT", "WS", "BETWEEN", "WS", "DATETIME", "WS", "AND", "WS">>}

\* sequences = a prefix from Prefixes followed by every sequence up to MaxLen over the alphabet
VARIABLES pre, t, n
Init == pre \in Prefixes /\ t \in Seqs(MaxLen) /\ n = 0
Next == n = 0 /\ n' = 1 /\ UNCHANGED <<pre, t>>
Emit == n = 1 => PrintT(ToJson([toks |-> pre \o t, sentence |-> IsSentence(pre \o t)]))
=============================================================================
