----------------------------- MODULE Integrity -----------------------------
(***************************************************************************)
(* C09: the integrity check.  On top of the database record of Store.tla:  *)
(*   Facts(d)     the atomic inconsistencies of a database value, stated   *)
(*                declaratively (one fact per missing / stale / dangling   *)
(*                / one-sided entry, per duplicate value, per null in a    *)
(*                non-nullable field);                                     *)
(*   Unfixable    the facts that are genuine data conflicts;               *)
(*   Repaired(d)  what a fix run has to leave: indexes, back-references    *)
(*                and link sides re-derived from the entities, dangling    *)
(*                references of nullable fields cleared, dangling links    *)
(*                removed, one-sided links completed.                      *)
(* TLC checks on the model: Facts(d) = {} exactly when Store!Consistent(d) *)
(* (for the features modelled), Repaired is idempotent and leaves only     *)
(* unfixable facts -- over every consistent base state within the bound    *)
(* and every set of up to MaxCorr corruptions.  Every (base, corruptions)  *)
(* pair is emitted; the harness builds the base through the API, applies   *)
(* the corruptions with raw bucket writes, runs CheckIntegrity on every    *)
(* store and compares: number of reports against the facts, file unchanged *)
(* in check mode, state after fix = Repaired, immediate re-check reports   *)
(* exactly the unfixable ones.                                             *)
(* Features: unique index on name, nullable unique index on nick, set      *)
(* index on roles, boss -> people as nullable fk index (back-references)   *)
(* or as nullable fk constraint (no back-references: only dangling         *)
(* references can be wrong), link collection people.teams <-> teams.members *)
(***************************************************************************)
EXTENDS Store, Json

CONSTANTS MaxCorr,      \* corruptions applied to a base state
          IdOrder,      \* ids in byte order (the fix pass gives a disputed unique value to the first holder)
          Bases         \* which family of base states ("small" / "full")

IdRank(i) == CHOOSE k \in 1..Len(IdOrder) : IdOrder[k] = i

\* ---- derived (what the redundant structures must be, given the entities)
NameOf(d) == [i \in Ids |-> IF Present(d, i) THEN d.ent[i].name ELSE NIL]
NickOf(d) == [i \in Ids |-> IF Present(d, i) THEN d.ent[i].nick ELSE NIL]
Holders(fld, v) == {i \in Ids : fld[i] = v /\ ~NoVal(v)}
DerSRoles(d) == [r \in Roles |-> {i \in Ids : Present(d, i) /\ r \in d.ent[i].roles}]
\* (a reference wired as a constraint -- BossMode conNoneNull -- keeps no back-references: nothing to derive, nothing to check)
BossIndexed == FkKind(BossMode) = "index"
DerBack(d) == [t \in Ids |-> IF BossIndexed THEN {i \in Ids : Present(d, i) /\ Present(d, t) /\ d.ent[i].boss = t} ELSE {}]

\* ---- atomic inconsistencies
UniqFacts(idx, fld, name) ==
  {<<name, "stale", v, idx[v]>> : v \in {w \in DOMAIN idx : idx[w] # NIL /\ fld[idx[w]] # w}}
  \cup {<<name, "missing", fld[i], i>> : i \in {j \in Ids : ~NoVal(fld[j]) /\ idx[fld[j]] = NIL}}
  \cup {<<name, "dup", fld[i], i>> : i \in {j \in Ids : ~NoVal(fld[j]) /\ idx[fld[j]] \notin {NIL, j} /\ fld[idx[fld[j]]] = fld[j]}}

Facts(d) ==
  UniqFacts(d.uName, NameOf(d), "name") \cup UniqFacts(d.uNick, NickOf(d), "nick")
  \cup {<<"name", "null", i>> : i \in {j \in Ids : Present(d, j) /\ NoVal(d.ent[j].name)}}
  \cup {<<"roles", "stale", x[1], x[2]>> : x \in {y \in Roles \X Ids : y[2] \in d.sRoles[y[1]] /\ y[2] \notin DerSRoles(d)[y[1]]}}
  \cup {<<"roles", "missing", x[1], x[2]>> : x \in {y \in Roles \X Ids : y[2] \in DerSRoles(d)[y[1]] /\ y[2] \notin d.sRoles[y[1]]}}
  \cup {<<"roles", "emptykey", r>> : r \in {q \in d.sKeys : d.sRoles[q] = {}}}
  \cup {<<"boss", "staleback", x[1], x[2]>> : x \in {y \in Ids \X Ids : y[2] \in d.backBoss[y[1]] /\ y[2] \notin DerBack(d)[y[1]]}}
  \cup {<<"boss", "missingback", x[1], x[2]>> : x \in {y \in Ids \X Ids : y[2] \in DerBack(d)[y[1]] /\ y[2] \notin d.backBoss[y[1]]}}
  \cup {<<"boss", "dangling", i>> : i \in {j \in Ids : Present(d, j) /\ ~NoVal(d.ent[j].boss) /\ ~Present(d, d.ent[j].boss)}}
  \cup {<<"links", "p-dangling", x[1], x[2]>> : x \in {y \in Ids \X Teams : Present(d, y[1]) /\ y[2] \in d.lnkPT[y[1]] /\ y[2] \notin d.tms}}
  \cup {<<"links", "t-dangling", x[1], x[2]>> : x \in {y \in Teams \X Ids : y[1] \in d.tms /\ y[2] \in d.lnkTP[y[1]] /\ ~Present(d, y[2])}}
  \cup {<<"links", "p-onesided", x[1], x[2]>> : x \in {y \in Ids \X Teams : Present(d, y[1]) /\ y[2] \in d.tms /\ y[2] \in d.lnkPT[y[1]] /\ y[1] \notin d.lnkTP[y[2]]}}
  \cup {<<"links", "t-onesided", x[1], x[2]>> : x \in {y \in Teams \X Ids : y[1] \in d.tms /\ Present(d, y[2]) /\ y[2] \in d.lnkTP[y[1]] /\ y[1] \notin d.lnkPT[y[2]]}}

Unfixable(f) == f[2] \in {"dup", "null"}
UnfixableFacts(d) == {f \in Facts(d) : Unfixable(f)}

\* ---- what a fix run leaves
FixIdx(idx, fld) == [v \in DOMAIN idx |->
                      IF idx[v] # NIL /\ fld[idx[v]] = v THEN idx[v]           \* a correct entry stays
                      ELSE IF Holders(fld, v) = {} THEN NIL
                      ELSE CHOOSE i \in Holders(fld, v) : \A j \in Holders(fld, v) : IdRank(i) <= IdRank(j)]
Repaired(d) ==
  LET e1 == [i \in Ids |-> IF Present(d, i) /\ ~NoVal(d.ent[i].boss) /\ ~Present(d, d.ent[i].boss) THEN [d.ent[i] EXCEPT !.boss = NIL] ELSE d.ent[i]]
      d1 == [d EXCEPT !.ent = e1]
      pt == [p \in Ids |-> IF ~Present(d, p) THEN d.lnkPT[p] ELSE {t \in d.tms : t \in d.lnkPT[p] \/ p \in d.lnkTP[t]}]
      tp == [t \in Teams |-> IF t \notin d.tms THEN d.lnkTP[t] ELSE {p \in Ids : Present(d, p) /\ (t \in d.lnkPT[p] \/ p \in d.lnkTP[t])}]
  IN [d1 EXCEPT !.uName = FixIdx(d.uName, NameOf(d)), !.uNick = FixIdx(d.uNick, NickOf(d)),
                !.sRoles = DerSRoles(d), !.sKeys = {r \in Roles : DerSRoles(d)[r] # {}},
                !.backBoss = DerBack(d1), !.lnkPT = pt, !.lnkTP = tp]

-----------------------------------------------------------------------------
(* base states: consistent by construction (indexes derived) *)
P(name, nick, roles, boss) == [name |-> name, nick |-> nick, roles |-> roles, boss |-> boss, team |-> NIL, sys |-> FALSE]
WithIndexes(d0) ==
  LET dd == [d0 EXCEPT !.sRoles = DerSRoles(d0), !.backBoss = DerBack(d0)]
  IN [dd EXCEPT !.uName = FixIdx(InitDb.uName, NameOf(d0)), !.uNick = FixIdx(InitDb.uNick, NickOf(d0)),
                !.sKeys = {r \in Roles : DerSRoles(d0)[r] # {}}]
Base(ents, tms, links) ==      \* links: set of <<person, team>>
  WithIndexes([InitDb EXCEPT !.ent = ents, !.tms = tms,
                             !.lnkPT = [p \in Ids |-> {t \in Teams : <<p, t>> \in links}],
                             !.lnkTP = [t \in Teams |-> {p \in Ids : <<p, t>> \in links}]])
BaseStates ==
  IF Bases = "small"
  THEN {Base([p1 |-> P("a", "x", {"r1"}, NIL), p2 |-> P("b", NIL, {"r1", "r2"}, "p1"), p3 |-> NoEnt], {"t1"}, {<<"p1", "t1">>}),
        Base([p1 |-> P("a", NIL, {}, "p1"), p2 |-> NoEnt, p3 |-> P("b", "x", {"r2"}, "p1")], {"t1", "t2"}, {<<"p3", "t1">>, <<"p3", "t2">>, <<"p1", "t2">>})}
  ELSE {Base([p1 |-> P("a", "x", {"r1"}, NIL), p2 |-> P("b", NIL, {"r1", "r2"}, "p1"), p3 |-> NoEnt], {"t1"}, {<<"p1", "t1">>}),
        Base([p1 |-> P("a", NIL, {}, "p1"), p2 |-> NoEnt, p3 |-> P("b", "x", {"r2"}, "p1")], {"t1", "t2"}, {<<"p3", "t1">>, <<"p3", "t2">>, <<"p1", "t2">>}),
        Base([p1 |-> P("a", "x", {"r1", "r2"}, "p2"), p2 |-> P("b", "y", {"r1"}, "p3"), p3 |-> P("p3", NIL, {"r2"}, NIL)], {"t1", "t2"}, {<<"p1", "t1">>, <<"p2", "t1">>, <<"p2", "t2">>}),
        Base([p1 |-> NoEnt, p2 |-> NoEnt, p3 |-> NoEnt], {}, {}),
        Base([p1 |-> P("a", "", {}, NIL), p2 |-> NoEnt, p3 |-> NoEnt], {"t1"}, {})}

\* raw edits a corruption can make (each changes d)
PresentIds(d) == {i \in Ids : Present(d, i)}
Corruptions(d) ==
  {[c |-> "uDel", f |-> "name", v |-> v] : v \in {w \in Names : d.uName[w] # NIL}}
  \cup {[c |-> "uDel", f |-> "nick", v |-> v] : v \in {w \in Nicks : d.uNick[w] # NIL}}
  \cup {[c |-> "uSet", f |-> "name", v |-> x[1], id |-> x[2]] : x \in {y \in (Names \ {""}) \X Ids : d.uName[y[1]] # y[2]}}
  \cup {[c |-> "uSet", f |-> "nick", v |-> x[1], id |-> x[2]] : x \in {y \in (Nicks \ {""}) \X Ids : d.uNick[y[1]] # y[2]}}
  \cup {[c |-> "sDel", r |-> x[1], id |-> x[2]] : x \in {y \in (Roles \ {""}) \X Ids : y[2] \in d.sRoles[y[1]]}}
  \cup {[c |-> "sAdd", r |-> x[1], id |-> x[2]] : x \in {y \in (Roles \ {""}) \X Ids : y[2] \notin d.sRoles[y[1]]}}
  \cup {[c |-> "sKey", r |-> r] : r \in {q \in Roles \ {""} : q \notin d.sKeys}}
  \cup {[c |-> "bDel", t |-> x[1], id |-> x[2]] : x \in {y \in PresentIds(d) \X Ids : BossIndexed /\ y[2] \in d.backBoss[y[1]]}}
  \cup {[c |-> "bAdd", t |-> x[1], id |-> x[2]] : x \in {y \in PresentIds(d) \X Ids : BossIndexed /\ y[2] \notin d.backBoss[y[1]]}}
  \cup {[c |-> "fkSet", id |-> x[1], t |-> x[2]] : x \in {y \in PresentIds(d) \X Ids : ~Present(d, y[2])}}
  \cup {[c |-> "lAddP", p |-> x[1], t |-> x[2]] : x \in {y \in PresentIds(d) \X Teams : y[2] \notin d.lnkPT[y[1]]}}
  \cup {[c |-> "lDelP", p |-> x[1], t |-> x[2]] : x \in {y \in PresentIds(d) \X Teams : y[2] \in d.lnkPT[y[1]]}}
  \cup {[c |-> "lAddT", t |-> x[1], p |-> x[2]] : x \in {y \in d.tms \X Ids : y[2] \notin d.lnkTP[y[1]]}}
  \cup {[c |-> "lDelT", t |-> x[1], p |-> x[2]] : x \in {y \in d.tms \X Ids : y[2] \in d.lnkTP[y[1]]}}
  \cup {[c |-> "nameSet", id |-> x[1], v |-> x[2]] : x \in {y \in PresentIds(d) \X (Names \ {""}) : y[2] # d.ent[y[1]].name}}

Apply(d, c) ==
  CASE c.c = "uDel" -> (IF c.f = "name" THEN [d EXCEPT !.uName[c.v] = NIL] ELSE [d EXCEPT !.uNick[c.v] = NIL])
    [] c.c = "uSet" -> (IF c.f = "name" THEN [d EXCEPT !.uName[c.v] = c.id] ELSE [d EXCEPT !.uNick[c.v] = c.id])
    [] c.c = "sDel" -> [d EXCEPT !.sRoles[c.r] = @ \ {c.id}]
    [] c.c = "sAdd" -> [d EXCEPT !.sRoles[c.r] = @ \cup {c.id}, !.sKeys = @ \cup {c.r}]
    [] c.c = "sKey" -> [d EXCEPT !.sKeys = @ \cup {c.r}]
    [] c.c = "bDel" -> [d EXCEPT !.backBoss[c.t] = @ \ {c.id}]
    [] c.c = "bAdd" -> [d EXCEPT !.backBoss[c.t] = @ \cup {c.id}]
    [] c.c = "fkSet" -> [d EXCEPT !.ent[c.id].boss = c.t]
    [] c.c = "lAddP" -> [d EXCEPT !.lnkPT[c.p] = @ \cup {c.t}]
    [] c.c = "lDelP" -> [d EXCEPT !.lnkPT[c.p] = @ \ {c.t}]
    [] c.c = "lAddT" -> [d EXCEPT !.lnkTP[c.t] = @ \cup {c.p}]
    [] c.c = "lDelT" -> [d EXCEPT !.lnkTP[c.t] = @ \ {c.p}]
    [] c.c = "nameSet" -> [d EXCEPT !.ent[c.id].name = c.v]

VARIABLES base, db, corr, done
Init == base \in BaseStates /\ db = base /\ corr = << >> /\ done = FALSE
Next == \/ /\ ~done /\ Len(corr) < MaxCorr
           /\ \E c \in Corruptions(db) : db' = Apply(db, c) /\ corr' = Append(corr, c)
           /\ UNCHANGED <<base, done>>
        \/ /\ ~done /\ done' = TRUE /\ UNCHANGED <<base, db, corr>>

\* ---- theorems about the specification itself
\* the facts are exactly what Store's consistency predicates miss (for the features modelled here)
FactsIffInconsistent == (Facts(db) = {}) <=> (UniqueMirrors(db) /\ SetMirrors(db) /\ FkSound(db) /\ LinksSymmetric(db))
\* a repair is complete, minimal and stable
RepairLeavesOnlyConflicts == Facts(Repaired(db)) = UnfixableFacts(Repaired(db))
RepairIdempotent == Repaired(Repaired(db)) = Repaired(db)
RepairKeepsConsistent == (Facts(db) = {}) => Repaired(db) = db
BasesConsistent == Facts(base) = {}

Emit == done => PrintT(ToJson([base |-> base, corr |-> corr, facts |-> Cardinality(Facts(db)), unfixable |-> Cardinality(UnfixableFacts(Repaired(db))),
                               repaired |-> Repaired(db), corrupted |-> db]))
=============================================================================
