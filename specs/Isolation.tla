----------------------------- MODULE Isolation -----------------------------
(***************************************************************************)
(* C18: snapshot-isolated reads.  One writer commits versions 1, 2, ...;   *)
(* each of its transactions is several store calls (the intermediate       *)
(* states are `dirty`); a read transaction fixes the committed version it  *)
(* sees when it begins and every observation it makes -- entity lookup,    *)
(* query, index read, link read -- is the content of that one version.     *)
(* TLC checks the model over all interleavings (OneVersion, NoDirtyRead)   *)
(* and, in Mode "trace", judges the observations recorded from the real    *)
(* library: the driver makes the whole content a function of the version   *)
(* number, so every observation decodes to a version; a recorded read      *)
(* transaction is accepted iff all its observations name one version v     *)
(* that was committed no later than the transaction's end and no earlier   *)
(* than its begin allows (lo <= v <= hi, the writer's commit counter       *)
(* sampled before the begin and after the end).                            *)
(***************************************************************************)
EXTENDS Naturals, Sequences, FiniteSets, TLC, Json, IOUtils

CONSTANTS Readers, MaxVersion, OpsPerTx, ObsPerTx, Mode, TraceFile

VARIABLES committed,   \* last committed version
          wstep,       \* calls the writer has made in its open transaction (0 = none open)
          rver,        \* reader -> version fixed at begin (0 = no transaction)
          robs         \* reader -> sequence of observed versions

vars == <<committed, wstep, rver, robs>>

Init == committed = 0 /\ wstep = 0 /\ rver = [r \in Readers |-> 0] /\ robs = [r \in Readers |-> << >>]

WCall == /\ committed < MaxVersion /\ wstep < OpsPerTx /\ wstep' = wstep + 1 /\ UNCHANGED <<committed, rver, robs>>
WCommit == /\ wstep = OpsPerTx /\ committed' = committed + 1 /\ wstep' = 0 /\ UNCHANGED <<rver, robs>>
WAbort == /\ wstep > 0 /\ wstep' = 0 /\ UNCHANGED <<committed, rver, robs>>
\* a reader sees the committed state as of its begin -- never the writer's open transaction
RBegin(r) == /\ rver[r] = 0 /\ committed > 0 /\ rver' = [rver EXCEPT ![r] = committed] /\ robs' = [robs EXCEPT ![r] = << >>]
             /\ UNCHANGED <<committed, wstep>>
RObserve(r) == /\ rver[r] > 0 /\ Len(robs[r]) < ObsPerTx
               /\ robs' = [robs EXCEPT ![r] = Append(@, rver[r])]
               /\ UNCHANGED <<committed, wstep, rver>>
REnd(r) == /\ rver[r] > 0 /\ rver' = [rver EXCEPT ![r] = 0] /\ UNCHANGED <<committed, wstep, robs>>

Next == WCall \/ WCommit \/ WAbort \/ \E r \in Readers : RBegin(r) \/ RObserve(r) \/ REnd(r)

OneVersion == \A r \in Readers : \A i, j \in 1..Len(robs[r]) : robs[r][i] = robs[r][j]
NoDirtyRead == \A r \in Readers : \A i \in 1..Len(robs[r]) : robs[r][i] <= committed /\ robs[r][i] > 0

-----------------------------------------------------------------------------
(* judging recorded read transactions: one JSON object per line  {"obs": [v, v, ...], "lo": n, "hi": n}  *)
Trace == IF Mode = "trace" THEN ndJsonDeserialize(TraceFile) ELSE << >>
Accepted(line) == \E v \in line.lo..line.hi : \A i \in 1..Len(line.obs) : line.obs[i] = v
TraceOk == \A k \in 1..Len(Trace) : Accepted(Trace[k])
FirstRejected == IF TraceOk THEN 0 ELSE CHOOSE k \in 1..Len(Trace) : ~Accepted(Trace[k]) /\ \A j \in 1..(k - 1) : Accepted(Trace[j])
ASSUME Mode = "trace" => PrintT(<<"TRACE", Len(Trace), "rejected-at", FirstRejected>>)
=============================================================================
