INIT Init
NEXT Next
INVARIANT MergeCorrect
CONSTANTS Keys = {1,2,3,4}  MaxReq = 4
