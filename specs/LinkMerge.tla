----------------------------- MODULE LinkMerge -----------------------------
(***************************************************************************)
(* linkCollectionImpl.SetLinks transcribed step by step (the request is    *)
(* sorted, then merged against the cursor over the current set; duplicate  *)
(* request keys are skipped in the "smaller" branch only) and checked      *)
(* against its specification: afterwards the link set is exactly the set   *)
(* of requested keys, whatever the current set, order and duplicates.      *)
(* Keys are naturals (ranks in byte order).                                *)
(***************************************************************************)
EXTENDS Naturals, Sequences, FiniteSets, SequencesExt

CONSTANTS Keys, MaxReq

RECURSIVE SkipDup(_, _)
SkipDup(s, k) == IF s # << >> /\ s[1] = k THEN SkipDup(Tail(s), k) ELSE s

\* one cursor row against the head(s) of the sorted request: returns [keys, add, handled, remove]
RECURSIVE Row(_, _, _)
Row(val, keys, add) ==
  IF keys = << >> THEN [keys |-> keys, add |-> add, handled |-> FALSE]
  ELSE IF keys[1] < val THEN Row(val, SkipDup(Tail(keys), keys[1]), add \cup {keys[1]})
  ELSE IF keys[1] > val THEN [keys |-> keys, add |-> add, handled |-> TRUE, remove |-> TRUE]
  ELSE [keys |-> Tail(keys), add |-> add, handled |-> TRUE, remove |-> FALSE]

RECURSIVE Merge(_, _, _, _)
Merge(cur, keys, add, rem) ==
  IF cur = << >> THEN [add |-> add \cup ToSet(keys), rem |-> rem]
  ELSE LET r == Row(cur[1], keys, add)
       IN IF ~r.handled THEN Merge(Tail(cur), r.keys, r.add, rem \cup {cur[1]})
          ELSE Merge(Tail(cur), r.keys, r.add, IF r.remove THEN rem \cup {cur[1]} ELSE rem)

SortedSeq(S) == SetToSortSeq(S, <)
Reqs == UNION {[1..n -> Keys] : n \in 0..MaxReq}

VARIABLES cur, req
Init == cur \in SUBSET Keys /\ req \in Reqs
Next == UNCHANGED <<cur, req>>

\* RemoveLinks(toRemove) then AddLinks(toAdd) must leave exactly the requested set
MergeCorrect ==
  LET m == Merge(SortedSeq(cur), SortSeq(req, <), {}, {})
  IN ((cur \ m.rem) \cup m.add) = ToSet(req)
=============================================================================
