------------------------------ MODULE Literal ------------------------------
(***************************************************************************)
(* C11: string literals of the filter language.  A string is a sequence of *)
(* code units over the alphabet                                            *)
(*   1 'a'  2 'n'  3 't'  4 '\'  5 '"'  6 LF  7 TAB  8 CR  9 FF  10 ' '    *)
(*   11 'e-acute' (a two-byte character)   12 'r'  13 'f'  14 'o'         *)
(* (n, o, t spell a keyword of the language inside a literal)              *)
(* Escape(s, ctl) renders s as the body of a quoted literal: backslash and *)
(* double quote are always backslash-escaped; the four escapable control   *)
(* characters are written as \n \t \r \f (a raw control character is not a  *)
(* legal literal character).  Unescape is the single left-to-right         *)
(* decoding the grammar implies.                                           *)
(***************************************************************************)
EXTENDS Naturals, Sequences, FiniteSets, TLC, Json

CONSTANTS MaxLen, Mode

BS == 4   QT == 5
Ctl == {6, 7, 8, 9}
LetterOf(c) == CASE c = 6 -> 2 [] c = 7 -> 3 [] c = 8 -> 12 [] c = 9 -> 13      \* LF -> n, TAB -> t, CR -> r, FF -> f
CtlOf(l) == CASE l = 2 -> 6 [] l = 3 -> 7 [] l = 12 -> 8 [] l = 13 -> 9
Units == 1..14

RECURSIVE Escape(_)
Escape(s) == IF s = << >> THEN << >>
             ELSE LET c == s[1] IN
                  (IF c = BS THEN <<BS, BS>> ELSE IF c = QT THEN <<BS, QT>> ELSE IF c \in Ctl THEN <<BS, LetterOf(c)>> ELSE <<c>>)
                  \o Escape(Tail(s))

\* a literal body is valid iff it has no raw quote / control character and every backslash starts one of the six escapes
RECURSIVE ValidBody(_)
ValidBody(b) == IF b = << >> THEN TRUE
                ELSE IF b[1] = BS THEN Len(b) >= 2 /\ b[2] \in {BS, QT, 2, 3, 12, 13} /\ ValidBody(SubSeq(b, 3, Len(b)))
                ELSE b[1] # QT /\ b[1] \notin Ctl /\ ValidBody(Tail(b))

RECURSIVE Unescape(_)
Unescape(b) == IF b = << >> THEN << >>
               ELSE IF b[1] = BS THEN (IF b[2] \in {BS, QT} THEN <<b[2]>> ELSE <<CtlOf(b[2])>>) \o Unescape(SubSeq(b, 3, Len(b)))
               ELSE <<b[1]>> \o Unescape(Tail(b))

Strings(n) == UNION {[1..k -> Units] : k \in 0..n}

\* ---- what TLC checks on the model itself
VARIABLES s, n
Init == /\ s \in (IF Mode = "bodies" THEN {b \in Strings(MaxLen) : ValidBody(b)} ELSE Strings(MaxLen))
        /\ n = 0
Next == n = 0 /\ n' = 1 /\ UNCHANGED s

\* round trip; an escaped backslash followed by a letter stays two characters; Escape is injective (follows from the round trip)
RoundTrip == Mode = "strings" => (ValidBody(Escape(s)) /\ Unescape(Escape(s)) = s)

\* ---- case emission for the replay: one JSON line per literal body / per string
Emit == n = 1 => IF Mode = "bodies" THEN PrintT(ToJson([body |-> s, value |-> Unescape(s)]))
                 ELSE PrintT(ToJson([value |-> s, body |-> Escape(s)]))
=============================================================================
