---------------------------- MODULE MCIntegrity ----------------------------
(* Root module for the configurations of Integrity.tla (sequences cannot be written in a .cfg file). *)
EXTENDS Integrity
Order3 == <<"p1", "p2", "p3">>
=============================================================================
