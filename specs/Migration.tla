----------------------------- MODULE Migration -----------------------------
(***************************************************************************)
(* The migration manager (boltz/migration.go): a `versions` bucket maps    *)
(* each component to the schema version its data is at.  Migrate(c, t, m)  *)
(* runs, inside ONE write transaction, the migrator m step by step until   *)
(* the recorded version equals the target t:                               *)
(*   - a component never migrated is at version 0 and has no entry;        *)
(*   - before the first step of a migration of a component that has an     *)
(*     entry different from the target, a snapshot of the database file is *)
(*     written (a side effect outside the transaction: it stays even when  *)
(*     the migration is rolled back);                                      *)
(*   - every step may change data; the entry is rewritten whenever the     *)
(*     step returned another version than it was given;                    *)
(*   - a step that sets an error ends the migration: the transaction is    *)
(*     rolled back, entry and data are exactly as before.                  *)
(* The migrator is modelled by its plan: for the version it is given it    *)
(* either returns a version or fails.  (A plan that returns the version it *)
(* was given without reaching the target would loop for ever; plans are    *)
(* restricted to those that make progress -- the migrator's contract.)     *)
(* This module is not tied to one of the listed properties; it extends the *)
(* coverage of the Db life cycle (DbLife.tla) and of all-or-nothing (C07). *)
(***************************************************************************)
EXTENDS Naturals, Sequences, FiniteSets, TLC, Json

CONSTANTS Components, MaxV, MaxSteps

NoEntry == 99        \* "the versions bucket has no entry for the component"
Fail == 98           \* a plan entry: the step sets an error

VARIABLES entry,     \* [component -> version or NoEntry]
          data,      \* [component -> sequence of versions the migrator's steps ran for]  (what the steps wrote)
          snaps,     \* number of snapshot files written so far
          last, steps, hist

vars == <<entry, data, snaps, last, steps, hist>>

Init == /\ entry = [c \in Components |-> NoEntry]
        /\ data = [c \in Components |-> << >>]
        /\ snaps = 0 /\ last = [op |-> "init"] /\ steps = 0 /\ hist = << >>

VersionIn(e, c) == IF e[c] = NoEntry THEN 0 ELSE e[c]
VersionOf(c) == VersionIn(entry, c)

\* plans: for each version 0..MaxV what the migrator does when handed that version
\* (a sequence: entry v+1 is for version v)
Plans == [1..(MaxV + 1) -> (0..MaxV) \cup {Fail}]
P(plan, v) == plan[v + 1]

\* run the plan from version v towards target t: the sequence of versions the steps were handed, and the outcome
RECURSIVE Run(_, _, _, _)
Run(plan, v, t, seen) ==
  IF v = t THEN [ok |-> TRUE, at |-> v, ran |-> seen]
  ELSE IF P(plan, v) = Fail THEN [ok |-> FALSE, at |-> v, ran |-> Append(seen, v)]
  ELSE Run(plan, P(plan, v), t, Append(seen, v))

\* progress: following the plan from v reaches t or a failing step without visiting a version twice
RECURSIVE Terminates(_, _, _, _)
Terminates(plan, v, t, visited) ==
  IF v = t THEN TRUE
  ELSE IF v \in visited THEN FALSE
  ELSE IF P(plan, v) = Fail THEN TRUE
  ELSE Terminates(plan, P(plan, v), t, visited \cup {v})

GetVersion(c) == /\ last' = [op |-> "getVersion", c |-> c, ret |-> VersionOf(c)]
                 /\ UNCHANGED <<entry, data, snaps>>

Migrate(c, t, plan) ==
  /\ Terminates(plan, VersionOf(c), t, {})
  \* (entries of the plan the run never consults are irrelevant: keep one representative)
  /\ LET r0 == Run(plan, VersionOf(c), t, << >>) IN \A u \in 0..MaxV : (\A i \in 1..Len(r0.ran) : r0.ran[i] # u) => P(plan, u) = Fail
  /\ LET r == Run(plan, VersionOf(c), t, << >>)
         snap == entry[c] # NoEntry /\ entry[c] # t
     IN /\ snaps' = IF snap THEN snaps + 1 ELSE snaps
        /\ IF r.ok
           THEN /\ entry' = IF r.ran = << >> THEN entry ELSE [entry EXCEPT ![c] = t]
                /\ data' = [data EXCEPT ![c] = @ \o r.ran]
           ELSE UNCHANGED <<entry, data>>
        /\ last' = [op |-> "migrate", c |-> c, target |-> t, plan |-> plan, ok |-> r.ok, ran |-> r.ran, snapshot |-> snap]

Next == /\ steps < MaxSteps /\ steps' = steps + 1
        /\ \/ \E c \in Components : GetVersion(c)
           \/ \E c \in Components, t \in 0..MaxV, plan \in Plans : Migrate(c, t, plan)
        /\ hist' = Append(hist, [last |-> last', entry |-> entry', data |-> data', snaps |-> snaps'])

Spec == Init /\ [][Next]_vars

\* a failed migration changes nothing inside the database (the snapshot file is outside)
AllOrNothing == [][(last'.op = "migrate" /\ ~last'.ok) => (entry' = entry /\ data' = data)]_vars
\* a successful migration ends at the target, and only the migrated component is touched
ReachesTarget == [][(last'.op = "migrate" /\ last'.ok) =>
                      (VersionIn(entry', last'.c) = last'.target /\ \A d \in Components \ {last'.c} : entry'[d] = entry[d] /\ data'[d] = data[d])]_vars
\* the safety copy is written exactly when recorded data is about to be migrated to another version
SnapshotBeforeChange == [][last'.op = "migrate" => ((snaps' = snaps + 1) <=> (entry[last'.c] # NoEntry /\ entry[last'.c] # last'.target))]_vars
\* a version is recorded only by a migration that ran at least one step; reading a version records nothing
ReadOnlyGet == [][last'.op = "getVersion" => UNCHANGED <<entry, data, snaps>>]_vars

View == <<entry, data, snaps, steps>>
Emit == (steps = MaxSteps) => PrintT(ToJson([steps |-> hist]))
=============================================================================
