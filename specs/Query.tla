------------------------------- MODULE Query -------------------------------
(***************************************************************************)
(* Denotational semantics of ZitiQL filters, sorting and paging over an    *)
(* abstract dataset, written from the documented semantics (property       *)
(* statements C01 C02 C19 C20, ast/README.md) -- not from the evaluator.   *)
(* TLC evaluates it over enumerated (dataset, query) cases and emits the   *)
(* expected answers (QueryCases.tla); cmd/vreplay runs every case through  *)
(* each evaluation path of the real engine.  In the other direction the    *)
(* same operators judge answers recorded from the real engine on random    *)
(* datasets (QueryTrace.tla).                                              *)
(*                                                                         *)
(* Values.  A string is a sequence of code units 1..19 whose numeric order *)
(* is the byte order of the characters they stand for                      *)
(*      1 ' '  2 '"'  3 '-'  4 '.'  5..14 '0'..'9'  15 'A'  16 'B'         *)
(*      17 '\'  18 'a'  19 'b'                                             *)
(* A number is kept as twice its value (so halves are exact): an int64     *)
(* field holds an even `v2`, a float field any `v2`.  A datetime is an     *)
(* integer rank (the harness renders ranks as RFC 3339 instants in         *)
(* different zones).  Typed value = [t |-> "s"|"n"|"f"|"b"|"d", v |-> ..]  *)
(* or Nil = [t |-> "nil"].                                                 *)
(***************************************************************************)
EXTENDS Integers, Sequences, FiniteSets, SequencesExt, FiniteSetsExt, TLC

\* Named deviations of the implementation from the documented semantics (known findings, DESIGN.md 6).  The checks
\* probe each one on its minimal input first and run the cases with exactly the deviations the tree really has, so
\* that every other disagreement is still reported.
\*   "boolNullIsFalse" : in a bool comparison (b = true, tags.k != false) a null or non-bool operand counts as false
CONSTANT Dev

Nil == [t |-> "nil"]
S(v) == [t |-> "s", v |-> v]
N(v) == [t |-> "n", v |-> 2 * v]          \* int64 (also int32 storage)
F2(v2) == [t |-> "f", v |-> v2]           \* float, given as twice its value
B(v) == [t |-> "b", v |-> v]
D(v) == [t |-> "d", v |-> v]
IsNil(x) == x.t = "nil"

-----------------------------------------------------------------------------
(* strings *)
Upper(u) == IF u = 18 THEN 15 ELSE IF u = 19 THEN 16 ELSE u
UpperS(s) == [i \in 1..Len(s) |-> Upper(s[i])]

RECURSIVE SLess(_, _)
SLess(a, b) == IF b = << >> THEN FALSE
               ELSE IF a = << >> THEN TRUE
               ELSE IF a[1] # b[1] THEN a[1] < b[1]
               ELSE SLess(Tail(a), Tail(b))

SContains(a, b) == \E i \in 0..(Len(a) - Len(b)) : \A j \in 1..Len(b) : a[i + j] = b[j]

RECURSIVE Digits(_)
Digits(n) == IF n < 10 THEN <<5 + n>> ELSE Digits(n \div 10) \o <<5 + (n % 10)>>
\* decimal text of a number given as twice its value (strconv.FormatInt / FormatFloat 'f' -1)
NumText(v2) == LET a == IF v2 < 0 THEN -v2 ELSE v2
                   body == IF a % 2 = 0 THEN Digits(a \div 2) ELSE Digits(a \div 2) \o <<4, 10>>
               IN IF v2 < 0 THEN <<3>> \o body ELSE body

\* the string a string operation sees: numbers convert to their decimal text
AsString(x) == CASE x.t = "s" -> x.v
                 [] x.t \in {"n", "f"} -> NumText(x.v)
                 [] OTHER -> << >>

-----------------------------------------------------------------------------
(* datasets: ds = [row |-> [id -> row], names |-> [id -> the id as a string (unit sequence)]] ;
   row = [s, n, m, f, b, t : typed value or Nil, roles : set of strings, boss : an id or "" (none),
          peers : set of ids, tags : [key -> typed value or Nil]]
   A symbol is a sequence of segments: <<"s">>, <<"boss", "s">>, <<"peers", "roles">>, <<"tags", "k">> ...
   A second entity type, places (one string field s), is reached through the link set `places` of a row:
   ds.pl = [of |-> [row id -> set of place ids], row |-> [place id -> [s]], names |-> [place id -> id string]];
   dotted chains then cross entity types (boss.places.s, peers.places), and a sub-query over such a set
   is evaluated against the place type.                                                                     *)

RowIds(ds) == DOMAIN ds.row
IdStr(ds, id) == ds.names[id]
BossOf(ds, id) == IF ds.row[id].boss \in RowIds(ds) THEN ds.row[id].boss ELSE ""

PlacesOf(ds, id) == ds.pl.of[id]       \* (total on the row ids)

IsSetSym(sym) == \E i \in 1..Len(sym) : sym[i] \in {"roles", "peers", "places", "kids"}
\* `kids` holds the same ids as `peers`, but its linked type is the plain *child* store: iterating the set gives every id it
\* holds, a sub-query over it is a query of the child store and sees only the rows that have child data -- by the convention shared
\* with the harness every second row in id order (r1, r3, r5, r7)
KidRows(ds) == RowIds(ds) \cap {"r1", "r3", "r5", "r7", "r9"}

\* value of a non-set symbol for row id (Nil when absent)
RECURSIVE Val(_, _, _)
Val(ds, id, sym) ==
  LET h == sym[1] IN
  CASE h = "id" -> S(IdStr(ds, id))
    [] h \in {"s", "n", "m", "f", "b", "t"} -> ds.row[id][h]
    [] h = "tags" -> IF Len(sym) = 2 /\ sym[2] \in DOMAIN ds.row[id].tags THEN ds.row[id].tags[sym[2]] ELSE Nil
    \* `lbl`: a second map, declared with the element type string; it holds the string-valued entries of tags
    [] h = "lbl" -> IF Len(sym) = 2 /\ sym[2] \in DOMAIN ds.row[id].tags /\ ds.row[id].tags[sym[2]].t = "s" THEN ds.row[id].tags[sym[2]] ELSE Nil
    [] h = "boss" -> IF Len(sym) = 1 THEN (IF ds.row[id].boss = "" THEN Nil ELSE S(IdStr(ds, ds.row[id].boss)))
                     ELSE IF BossOf(ds, id) = "" THEN Nil ELSE Val(ds, BossOf(ds, id), Tail(sym))

\* the iteration of a set symbol for row id: a sequence of typed values (with multiplicity; order irrelevant)
RECURSIVE Elems(_, _, _)
Elems(ds, id, sym) ==
  LET h == sym[1] IN
  CASE h = "roles" -> LET q == SetToSeq(ds.row[id].roles) IN [i \in 1..Len(q) |-> S(q[i])]
    [] h = "boss" -> IF BossOf(ds, id) = "" THEN << >> ELSE Elems(ds, BossOf(ds, id), Tail(sym))
    [] h = "places" -> LET q == SetToSeq(PlacesOf(ds, id)) IN
                       IF Len(sym) = 1 \/ sym[2] = "id" THEN [i \in 1..Len(q) |-> S(ds.pl.names[q[i]])]
                       ELSE [i \in 1..Len(q) |-> ds.pl.row[q[i]].s]
    [] h = "kids" -> LET q == SetToSeq(ds.row[id].peers) IN [i \in 1..Len(q) |-> S(IdStr(ds, q[i]))]
    [] h = "peers" -> LET q == SetToSeq(ds.row[id].peers) IN
                      IF Len(sym) = 1 THEN [i \in 1..Len(q) |-> S(IdStr(ds, q[i]))]
                      ELSE IF IsSetSym(Tail(sym)) THEN FlattenSeq([i \in 1..Len(q) |-> Elems(ds, q[i], Tail(sym))])
                      ELSE [i \in 1..Len(q) |-> Val(ds, q[i], Tail(sym))]

\* the ids an id-valued set symbol leads to (sub-queries)
PeerIds(ds, id, sym) == IF sym = <<"peers">> THEN ds.row[id].peers
                        ELSE IF sym = <<"boss", "peers">> /\ BossOf(ds, id) # "" THEN ds.row[BossOf(ds, id)].peers
                        ELSE IF sym = <<"kids">> THEN ds.row[id].peers \cap KidRows(ds)
                        ELSE IF sym = <<"boss", "kids">> /\ BossOf(ds, id) # "" THEN ds.row[BossOf(ds, id)].peers \cap KidRows(ds)
                        ELSE IF sym = <<"places">> THEN PlacesOf(ds, id)
                        ELSE IF sym = <<"boss", "places">> /\ BossOf(ds, id) # "" THEN PlacesOf(ds, BossOf(ds, id)) ELSE {}
\* the dataset a sub-query over sym is evaluated against: the elements of a places set are places, not rows
PlaceDs(ds) == [name |-> ds.name, names |-> ds.pl.names,
                row |-> [p \in DOMAIN ds.pl.row |-> [s |-> ds.pl.row[p].s, n |-> Nil, m |-> Nil, f |-> Nil, b |-> Nil, t |-> Nil, roles |-> {},
                                                     boss |-> "", peers |-> {}, tags |-> << >>]],
                pl |-> [of |-> [p \in DOMAIN ds.pl.row |-> {}], row |-> << >>, names |-> << >>]]
SubDs(ds, sym) == IF sym[Len(sym)] = "places" THEN PlaceDs(ds) ELSE ds

-----------------------------------------------------------------------------
(* comparisons *)

\* x: value of the symbol, y: literal, kind: how the operation is typed ("s" string, "num", "b", "d")
OpKind(symType, lit) == CASE symType = "any" -> (IF lit.t \in {"n", "f"} THEN "num" ELSE lit.t)
                          [] symType \in {"n", "f"} -> (IF lit.t = "s" THEN "s" ELSE "num")
                          [] OTHER -> symType

OrdCmp(op, lt, eq) == CASE op = "eq" -> eq [] op = "ne" -> ~eq [] op = "lt" -> lt [] op = "le" -> (lt \/ eq)
                         [] op = "gt" -> (~lt /\ ~eq) [] op = "ge" -> ~lt

CmpValsA(kind, op, x, y, symAny) ==
  IF (IsNil(x) \/ IsNil(y)) /\ ~(kind = "b" /\ "boolNullIsFalse" \in Dev) THEN op = "ne"     \* null: everything false except !=
  ELSE IF kind = "s" THEN LET a == AsString(x) b == AsString(y) IN OrdCmp(op, SLess(a, b), a = b)
  ELSE IF kind = "num" THEN (IF x.t \notin {"n", "f"} \/ y.t \notin {"n", "f"} \/ (symAny /\ y.t = "n" /\ x.t = "f")
                             THEN op = "ne"                      \* not a number (any-typed: a float value under an int literal is not an int): like null
                             ELSE OrdCmp(op, x.v < y.v, x.v = y.v))
  ELSE IF kind = "d" THEN (IF x.t # "d" \/ y.t # "d" THEN op = "ne" ELSE OrdCmp(op, x.v < y.v, x.v = y.v))
  ELSE LET xb == IF x.t = "b" THEN x.v ELSE FALSE IN
       IF "boolNullIsFalse" \in Dev THEN (IF op = "eq" THEN xb = y.v ELSE IF op = "ne" THEN xb # y.v ELSE FALSE)
       ELSE (IF x.t # "b" \/ y.t # "b" THEN op = "ne" ELSE (IF op = "eq" THEN x.v = y.v ELSE IF op = "ne" THEN x.v # y.v ELSE FALSE))

CmpVals(kind, op, x, y) == CmpValsA(kind, op, x, y, FALSE)

\* one atomic test of a single value x.  a = [k, ...]
Test(a, symType, x) ==
  CASE a.k = "cmp" -> CmpValsA(OpKind(symType, a.lit), a.op, x, a.lit, symType = "any")
    [] a.k = "null" -> IF a.neg THEN ~IsNil(x) ELSE IsNil(x)
    [] a.k = "in" -> LET hit == ~IsNil(x) /\ \E l \in a.lits : CmpValsA(OpKind(symType, l), "eq", x, l, symType = "any")
                     IN IF a.neg THEN ~hit ELSE hit
    [] a.k = "between" -> LET kind == OpKind(symType, a.lo)
                              hit == ~IsNil(x) /\ CmpValsA(kind, "ge", x, a.lo, symType = "any") /\ CmpValsA(kind, "lt", x, a.hi, symType = "any")
                          IN IF a.neg THEN ~hit ELSE hit
    [] a.k = "contains" -> LET hit == ~IsNil(x) /\ x.t \in {"s", "n", "f"} /\
                                      (IF a.ci THEN SContains(UpperS(AsString(x)), UpperS(AsString(a.lit)))
                                       ELSE SContains(AsString(x), AsString(a.lit)))
                           IN IF a.neg THEN ~hit ELSE hit

SymType(sym) ==
  LET l == sym[Len(sym)] IN
  IF \E i \in 1..Len(sym) : sym[i] = "tags" THEN "any"
  ELSE IF \E i \in 1..Len(sym) : sym[i] = "lbl" THEN "s"
  ELSE CASE l \in {"id", "s", "boss", "roles", "peers", "places", "kids"} -> "s"
         [] l \in {"n", "m"} -> "n"
         [] l = "f" -> "f"
         [] l = "b" -> "b"
         [] l = "t" -> "d"

-----------------------------------------------------------------------------
(* filters:  [k |-> "atom", sym, a] | [k |-> "anyOf"/"allOf", sym, a] | [k |-> "count", sym, op, n] | [k |-> "isEmpty", sym]
             | [k |-> "countq"/"isEmptyq", sym, q (a query record), op, n] | [k |-> "boolsym", sym] | [k |-> "const", v]
             | [k |-> "and"/"or", l, r] | [k |-> "not", e]
   query:    [p |-> filter, sort |-> sequence of [sym, asc], skip |-> Int or NoVal, limit |-> Int, NoneLimit or NoVal] *)
NoVal == -999          \* skip / limit not given
NoneLimit == -998      \* `limit none`

RECURSIVE Eval(_, _, _), Match(_, _, _), Page(_, _)

\* the rows of `ids` (a set) matching query q, in the order the query asks for, paged
Sorted(ds, ids, sort) ==
  LET Key(id, k) == Val(ds, id, sort[k].sym)
      \* -1 / 0 / 1 : nil first when ascending
      C1(x, y, asc) == LET raw == IF IsNil(x) THEN (IF IsNil(y) THEN 0 ELSE -1)
                                  ELSE IF IsNil(y) THEN 1
                                  ELSE IF x.t = "s" THEN (IF SLess(x.v, y.v) THEN -1 ELSE IF x.v = y.v THEN 0 ELSE 1)
                                  ELSE IF x.t = "b" THEN (IF x.v = y.v THEN 0 ELSE IF y.v THEN -1 ELSE 1)
                                  ELSE (IF x.v < y.v THEN -1 ELSE IF x.v = y.v THEN 0 ELSE 1)
                       IN IF asc THEN raw ELSE -raw
      RECURSIVE Cmp(_, _, _)
      Cmp(i, j, k) == IF k > Len(sort) THEN (IF SLess(IdStr(ds, i), IdStr(ds, j)) THEN -1 ELSE IF i = j THEN 0 ELSE 1)   \* ties: id ascending
                      ELSE LET c == C1(Key(i, k), Key(j, k), sort[k].asc) IN IF c # 0 THEN c ELSE Cmp(i, j, k + 1)
  IN SortSeq(SetToSeq(ids), LAMBDA i, j : Cmp(i, j, 1) < 0)

Page(seq, q) ==
  LET skip == IF q.skip = NoVal \/ q.skip < 0 THEN 0 ELSE q.skip
      rest == IF skip >= Len(seq) THEN << >> ELSE SubSeq(seq, skip + 1, Len(seq))
  IN IF q.limit = NoVal \/ q.limit = NoneLimit THEN rest
     ELSE IF q.limit < 0 THEN rest
     ELSE IF q.limit >= Len(rest) THEN rest ELSE SubSeq(rest, 1, q.limit)

Match(ds, ids, q) == {id \in ids : Eval(ds, id, q.p)}
Answer(ds, ids, q) == [ids |-> Page(Sorted(ds, Match(ds, ids, q), q.sort), q), count |-> Cardinality(Match(ds, ids, q))]

Eval(ds, id, f) ==
  CASE f.k = "const" -> f.v
    [] f.k = "boolsym" -> LET x == Val(ds, id, f.sym) IN x.t = "b" /\ x.v
    [] f.k = "atom" -> Test(f.a, SymType(f.sym), Val(ds, id, f.sym))
    \* `anyOf(S) not in L` / `not between` are read the way the engine builds them: the negation of `anyOf(S) in L`
    \* (a `not` around the set function), whereas `!=` and `not contains` are tests of the single element.  The documented
    \* semantics do not say which; the engine's reading is adopted (DESIGN.md 5/C01).
    [] f.k \in {"anyOf", "allOf"} ->
         LET e == Elems(ds, id, f.sym)
             outer == f.a.k \in {"in", "between"} /\ f.a.neg
             a == IF outer THEN [f.a EXCEPT !.neg = FALSE] ELSE f.a
             r == IF f.k = "anyOf" THEN \E i \in 1..Len(e) : Test(a, SymType(f.sym), e[i])
                  ELSE \A i \in 1..Len(e) : Test(a, SymType(f.sym), e[i])
         IN IF outer THEN ~r ELSE r
    [] f.k = "count" -> CmpVals("num", f.op, N(Len(Elems(ds, id, f.sym))), f.n)
    [] f.k = "isEmpty" -> Len(Elems(ds, id, f.sym)) = 0
    [] f.k = "countq" -> CmpVals("num", f.op, N(Len(Answer(SubDs(ds, f.sym), PeerIds(ds, id, f.sym), f.q).ids)), f.n)
    [] f.k = "isEmptyq" -> Len(Answer(SubDs(ds, f.sym), PeerIds(ds, id, f.sym), f.q).ids) = 0
    [] f.k = "and" -> Eval(ds, id, f.l) /\ Eval(ds, id, f.r)
    [] f.k = "or" -> Eval(ds, id, f.l) \/ Eval(ds, id, f.r)
    [] f.k = "not" -> ~Eval(ds, id, f.e)

\* C20: every symbol a query references
RECURSIVE FSyms(_), QSyms(_)
FSyms(f) == CASE f.k \in {"const"} -> {}
              [] f.k \in {"boolsym", "atom", "anyOf", "allOf", "count", "isEmpty"} -> {f.sym}
              [] f.k \in {"countq", "isEmptyq"} -> {f.sym} \cup QSyms(f.q)    \* (the validator checks the sub-query's symbols against the same store)
              [] f.k \in {"and", "or"} -> FSyms(f.l) \cup FSyms(f.r)
              [] f.k = "not" -> FSyms(f.e)
QSyms(q) == FSyms(q.p) \cup {q.sort[i].sym : i \in 1..Len(q.sort)}
=============================================================================
