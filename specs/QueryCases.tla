----------------------------- MODULE QueryCases -----------------------------
(***************************************************************************)
(* Case generator for C01 / C02 / C19 / C20: TLC enumerates (dataset,       *)
(* query) cases over adversarial datasets and literal pools, evaluates      *)
(* Query!Answer on each and prints one JSON line per case                   *)
(*    {"ds": name, "q": query, "ids": [...], "count": n, "syms": [...]}     *)
(* which cmd/vreplay runs through every evaluation path of the engine.     *)
(* Mode selects the slice of the case space (one TLC process per slice).   *)
(***************************************************************************)
EXTENDS Query, Json, QueryRand

CONSTANTS Mode

\* ---- string constants (unit sequences): see the alphabet in Query.tla
sE == << >>          sA == <<18>>        sAB == <<18, 19>>    sB == <<19>>       sUA == <<15>>      sUAB == <<15, 16>>
s1 == <<6>>          s10 == <<6, 5>>     s1p5 == <<6, 4, 10>> sBB == <<19, 19>>  sAspB == <<18, 1, 19>>
sQ == <<18, 2, 19>>  \* a"b
sBS == <<18, 17, 19>> \* a\b
sNeg == <<3, 6>>     \* -1
s25 == <<7, 10>>     \* 25
NoPlaces(rows) == [of |-> [r \in rows |-> {}], row |-> << >>, names |-> << >>]

DZero == D(-1000)      \* the zero time.Time{}: a value like any other (earlier than every other instant), not null
DFar == D(1000)        \* 9999-12-31, the "never" of many applications (beyond what fits into 64 bits of nanoseconds since 1970)
NoTags == [k |-> Nil, j |-> Nil, q |-> Nil]
\* (tag values of type bool / datetime live under key q only: how such values compare under a *string* literal is not documented)
Row(s, n, m, f, b, t, roles, boss, peers, tags) ==
  [s |-> s, n |-> n, m |-> m, f |-> f, b |-> b, t |-> t, roles |-> roles, boss |-> boss, peers |-> peers, tags |-> tags]

\* D1: nulls in every field, ties, case variants, numeric strings, self reference, empty and singleton sets
D1 == [ name |-> "D1",
        names |-> [r1 |-> sA, r2 |-> <<18, 18>>, r3 |-> sAB, r4 |-> sB, r5 |-> sUA],
        row |-> [ r1 |-> Row(S(sA), N(1), N(1), F2(3), B(TRUE), D(1), {sA, sAB}, "", {"r2", "r3"}, [k |-> S(sA), j |-> N(1), q |-> B(TRUE)]),
                  r2 |-> Row(Nil, Nil, Nil, Nil, Nil, Nil, {}, "r1", {}, NoTags),
                  r3 |-> Row(S(sE), N(0), N(0), F2(0), B(FALSE), DZero, {sB}, "r1", {"r3"}, [k |-> Nil, j |-> S(s1), q |-> D(1)]),
                  r4 |-> Row(S(sUAB), N(-1), N(-1), F2(-1), B(TRUE), D(2), {sB, sUA}, "r4", {"r1", "r4"}, [k |-> N(2), j |-> N(0), q |-> B(FALSE)]),
                  r5 |-> Row(S(s10), N(10), N(10), F2(4), B(FALSE), DFar, {sA}, "r3", {"r2"}, [k |-> F2(3), j |-> S(sA), q |-> D(2)]) ],
        \* places: q1 and q3 carry the same s as rows do (a sub-query evaluated against the wrong type would still find a value), q2 has none
        pl |-> [ of |-> [r1 |-> {"q1", "q2"}, r2 |-> {}, r3 |-> {"q2"}, r4 |-> {"q1", "q3"}, r5 |-> {"q3"}],
                 row |-> [q1 |-> [s |-> S(sA)], q2 |-> [s |-> Nil], q3 |-> [s |-> S(sB)]],
                 names |-> [q1 |-> s10, q2 |-> s1, q3 |-> sBB] ] ]      \* (ids no row uses)

\* D2: everything equal / everything distinct mixes for sorting and paging; strings with quote and backslash
D2 == [ name |-> "D2",
        names |-> [r1 |-> sB, r2 |-> sA, r3 |-> sUA, r4 |-> sAB, r5 |-> <<19, 18>>, r6 |-> s1],
        row |-> [ r1 |-> Row(S(sQ), N(2), N(2), F2(2), B(TRUE), D(3), {sQ}, "r2", {"r2", "r3", "r4"}, [k |-> S(sQ), j |-> Nil, q |-> B(TRUE)]),
                  r2 |-> Row(S(sBS), N(2), N(1), F2(3), B(TRUE), D(3), {sA, sB, sAB}, "r3", {"r1"}, [k |-> S(sBS), j |-> N(2), q |-> Nil]),
                  r3 |-> Row(S(sA), Nil, N(1), F2(3), Nil, D(0), {sA}, "", {"r5", "r6"}, [k |-> S(sUA), j |-> N(0), q |-> B(FALSE)]),
                  r4 |-> Row(S(sA), N(1), Nil, Nil, B(FALSE), Nil, {}, "r2", {}, [k |-> F2(5000000), j |-> Nil, q |-> Nil]),
                  r5 |-> Row(Nil, N(1), N(0), F2(-2), B(FALSE), D(1), {sAspB}, "r1", {"r5"}, [k |-> N(1), j |-> N(1), q |-> D(0)]),
                  r6 |-> Row(S(sAspB), N(0), N(0), F2(5000000), Nil, DFar, {sB}, "r6", {"r1", "r2"}, [k |-> S(s1), j |-> F2(1), q |-> D(3)]) ],
        pl |-> [ of |-> [r1 |-> {}, r2 |-> {"q1"}, r3 |-> {"q1", "q2"}, r4 |-> {}, r5 |-> {"q2"}, r6 |-> {"q1"}],
                 row |-> [q1 |-> [s |-> S(sA)], q2 |-> [s |-> S(sQ)]],
                 names |-> [q1 |-> sBB, q2 |-> sUAB] ] ]

\* D3: rows that agree on every scalar field (only the id tells them apart), for sorts whose every field ties
Same(boss, peers) == Row(S(sA), N(1), N(1), F2(2), B(TRUE), D(1), {sA}, boss, peers, NoTags)
Other(boss) == Row(S(sB), N(0), Nil, F2(2), B(TRUE), Nil, {}, boss, {}, NoTags)
D3 == [ name |-> "D3",
        names |-> [r1 |-> sB, r2 |-> sAB, r3 |-> sA, r4 |-> sUA, r5 |-> s1, r6 |-> <<18, 18>>, r7 |-> sBB],
        row |-> [ r1 |-> Same("", {}), r2 |-> Other("r1"), r3 |-> Same("r1", {"r1"}), r4 |-> Same("r1", {}), r5 |-> Other("r1"),
                  r6 |-> Same("", {"r2", "r3"}), r7 |-> Other("") ],
        pl |-> NoPlaces({"r1", "r2", "r3", "r4", "r5", "r6", "r7"}) ]

\* D4: integers at the ends of the 64-bit range (the harness maps N(1000000) / N(-1000000) to the largest / smallest int64, monotonically):
\* differences of two values do not fit the type
NBig == N(1000000)      NSmall == N(-1000000)
D4 == [ name |-> "D4",
        names |-> [r1 |-> sA, r2 |-> sB, r3 |-> sAB, r4 |-> sUA, r5 |-> s1, r6 |-> sBB],
        row |-> [ r1 |-> Row(S(sA), NBig, N(1), F2(2), B(TRUE), D(1), {}, "", {}, NoTags),
                  r2 |-> Row(S(sB), N(-2), N(1), F2(2), B(TRUE), D(1), {}, "r1", {}, NoTags),
                  r3 |-> Row(S(sA), NSmall, N(0), F2(3), B(FALSE), D(2), {}, "", {}, NoTags),
                  r4 |-> Row(S(sB), N(1), N(0), Nil, Nil, Nil, {}, "r3", {}, NoTags),
                  r5 |-> Row(Nil, Nil, Nil, F2(-1), B(FALSE), D(0), {}, "", {}, NoTags),
                  r6 |-> Row(S(sAB), NBig, N(2), F2(0), Nil, D(3), {}, "r2", {}, NoTags) ],
        pl |-> NoPlaces({"r1", "r2", "r3", "r4", "r5", "r6"}) ]

\* D0: the empty store
D0 == [name |-> "D0", names |-> << >>, row |-> << >>, pl |-> NoPlaces({})]

Datasets == (IF Mode = "big" THEN {D4} ELSE IF Mode = "mix" THEN {D1, D0} ELSE IF Mode = "page" THEN {D1, D2, D3, D4} ELSE IF Mode \in {"datasets", "bool"} THEN {D1, D2, D3, D0, D4} ELSE {D1, D2})
            \cup (IF Mode \in {"datasets", "scalar", "set", "bool", "subq", "page"} THEN RandDatasets ELSE {})

\* ---- literal pools
StrLits == {S(sA), S(sAB), S(sUA), S(sE), S(sB), S(s1), S(s10), S(s1p5), S(sBB), S(sQ), S(sBS), S(sAspB)}
IntLits == {N(-1), N(0), N(1), N(2), N(10)}
FltLits == {F2(-1), F2(0), F2(2), F2(3), F2(20)}
NumLits == IntLits \cup FltLits
BoolLits == {B(TRUE), B(FALSE)}
DateLits == {D(0), D(1), D(2), D(3)}
Ops6 == {"eq", "ne", "lt", "le", "gt", "ge"}

Cmp(op, l) == [k |-> "cmp", op |-> op, lit |-> l]
In(neg, ls) == [k |-> "in", neg |-> neg, lits |-> ls]
Btw(neg, lo, hi) == [k |-> "between", neg |-> neg, lo |-> lo, hi |-> hi]
Has(neg, ci, l) == [k |-> "contains", neg |-> neg, ci |-> ci, lit |-> l]
IsNull(neg) == [k |-> "null", neg |-> neg]

StrAtoms == {Cmp(op, l) : op \in Ops6, l \in StrLits}
            \cup {Cmp(op, l) : op \in {"eq", "ne", "lt"}, l \in {N(1), N(10), F2(3)}}              \* number -> string
            \cup {In(neg, ls) : neg \in BOOLEAN, ls \in {{S(sA)}, {S(sA), S(sUAB), S(sE)}, {S(sBB), S(sQ)}, {N(1), N(10)}}}
            \cup {Has(neg, ci, l) : neg \in BOOLEAN, ci \in BOOLEAN, l \in {S(sA), S(sB), S(sUA), S(sE), S(sAB)}}
            \cup {Has(neg, FALSE, l) : neg \in BOOLEAN, l \in {N(1), N(0)}}
            \cup {IsNull(neg) : neg \in BOOLEAN}
NumAtoms == {Cmp(op, l) : op \in Ops6, l \in NumLits}
            \cup {In(neg, ls) : neg \in BOOLEAN, ls \in {{N(1)}, {N(0), N(10), N(-1)}, {F2(3), F2(2)}, {N(2), N(7)}}}
            \cup {Btw(neg, lo, hi) : neg \in BOOLEAN, lo \in {N(0), N(1), F2(-1)}, hi \in {N(1), N(2), F2(3), N(10)}}
            \cup {Has(neg, FALSE, l) : neg \in BOOLEAN, l \in {S(s1), N(0), S(s1p5), S(s25)}}
            \cup {IsNull(neg) : neg \in BOOLEAN}
BoolAtoms == {Cmp(op, l) : op \in {"eq", "ne"}, l \in BoolLits} \cup {IsNull(neg) : neg \in BOOLEAN}
DateAtoms == {Cmp(op, l) : op \in Ops6, l \in DateLits}
             \cup {In(neg, ls) : neg \in BOOLEAN, ls \in {{D(1)}, {D(0), D(3)}}}
             \cup {Btw(neg, lo, hi) : neg \in BOOLEAN, lo \in {D(0), D(1)}, hi \in {D(1), D(2), D(3)}}
             \cup {IsNull(neg) : neg \in BOOLEAN}
AnyAtoms == {Cmp(op, l) : op \in Ops6, l \in {S(sA), S(s1), N(1), N(2), F2(3)}}
            \cup {Cmp(op, l) : op \in {"eq", "ne"}, l \in BoolLits} \cup {Cmp(op, D(1)) : op \in {"eq", "lt", "ge"}}
            \cup {In(neg, ls) : neg \in BOOLEAN, ls \in {{S(sA), S(s1)}, {N(1), N(2)}, {F2(3), F2(7)}, {F2(5000000)}}}
            \* (groups of float operands: the symbol is viewed as a float, int values convert)
            \cup {Btw(neg, lo, hi) : neg \in BOOLEAN, lo \in {F2(-1), F2(3)}, hi \in {F2(3), F2(20)}}
            \cup {Has(neg, ci, S(sA)) : neg \in BOOLEAN, ci \in BOOLEAN} \cup {Has(neg, FALSE, l) : neg \in BOOLEAN, l \in {S(s25), N(2500)}}
            \cup {IsNull(neg) : neg \in BOOLEAN}

BDAtoms == {Cmp(op, l) : op \in {"eq", "ne"}, l \in BoolLits} \cup {Cmp(op, l) : op \in Ops6, l \in {D(1), D(2)}} \cup {IsNull(neg) : neg \in BOOLEAN}
AnySLAtoms == {a \in AnyAtoms : ~(a.k = "cmp" /\ a.lit.t \in {"b", "d"})}
AtomsFor(sym) == CASE sym[Len(sym)] = "q" -> BDAtoms
                   [] SymType(sym) = "any" -> AnySLAtoms
                   [] SymType(sym) = "s" -> StrAtoms [] SymType(sym) \in {"n", "f"} -> NumAtoms
                   [] SymType(sym) = "b" -> BoolAtoms [] SymType(sym) = "d" -> DateAtoms [] OTHER -> AnyAtoms

ScalarSyms == {<<"id">>, <<"s">>, <<"n">>, <<"m">>, <<"f">>, <<"b">>, <<"t">>, <<"boss">>, <<"boss", "s">>, <<"boss", "n">>,
               <<"boss", "boss", "s">>, <<"boss", "id">>, <<"tags", "k">>, <<"tags", "j">>, <<"tags", "zz">>, <<"boss", "tags", "k">>, <<"tags", "q">>, <<"tags", "zz", "y">>,
               <<"lbl", "k">>, <<"lbl", "zz">>, <<"boss", "lbl", "k">>}
SetSyms == {<<"roles">>, <<"peers">>, <<"boss", "roles">>, <<"peers", "s">>, <<"peers", "n">>, <<"peers", "roles">>,
            <<"peers", "boss">>, <<"peers", "boss", "s">>, <<"peers", "tags", "k">>, <<"peers", "peers">>, <<"boss", "peers">>,
            <<"places">>, <<"places", "id">>, <<"peers", "id">>, <<"places", "s">>, <<"boss", "places">>, <<"boss", "places", "s">>, <<"peers", "places", "s">>, <<"boss", "boss", "places", "id">>}

TRUEF == [k |-> "const", v |-> TRUE]
Q(p) == [p |-> p, sort |-> << >>, skip |-> NoVal, limit |-> NoVal]

ScalarCases == {Q([k |-> "atom", sym |-> sym, a |-> a]) : sym \in ScalarSyms, a \in UNION {AtomsFor(s) : s \in ScalarSyms}}
\* (the comprehension above pairs every symbol with every atom; keep only the atoms of the symbol's own type)
ScalarQ == {q \in ScalarCases : q.p.a \in AtomsFor(q.p.sym)}

SetAtomsFor(sym) == {a \in AtomsFor(sym) : a.k # "null"}     \* `anyOf(x) = null` is not in the documented language
SetQ == UNION {{Q([k |-> fn, sym |-> sym, a |-> a]) : fn \in {"anyOf", "allOf"}, a \in SetAtomsFor(sym)} : sym \in SetSyms}
        \cup {Q([k |-> "count", sym |-> sym, op |-> op, n |-> n]) : sym \in SetSyms, op \in Ops6, n \in {N(0), N(1), N(2), F2(3)}}
        \cup {Q([k |-> "isEmpty", sym |-> sym]) : sym \in SetSyms}
        \cup {Q([k |-> "not", e |-> [k |-> "isEmpty", sym |-> sym]]) : sym \in SetSyms}

\* boolean structure over a few atoms
A1 == [k |-> "atom", sym |-> <<"s">>, a |-> Cmp("eq", S(sA))]
A2 == [k |-> "atom", sym |-> <<"n">>, a |-> Cmp("ge", N(1))]
A3 == [k |-> "boolsym", sym |-> <<"b">>]
A4 == [k |-> "anyOf", sym |-> <<"roles">>, a |-> Cmp("eq", S(sA))]
A5 == [k |-> "atom", sym |-> <<"t">>, a |-> IsNull(FALSE)]
BAtoms == {A1, A2, A3, A4, A5, TRUEF, [k |-> "const", v |-> FALSE]}
B1 == BAtoms \cup {[k |-> "not", e |-> x] : x \in BAtoms}
B2 == {[k |-> c, l |-> x, r |-> y] : c \in {"and", "or"}, x \in B1, y \in B1}
B3 == {[k |-> c, l |-> x, r |-> y] : c \in {"and", "or"}, x \in {A1, A3, [k |-> "not", e |-> A2]}, y \in {z \in B2 : z.l \in {A2, A4} /\ z.r \in {A3, A5, [k |-> "not", e |-> A1]}}}
BoolQ == {Q(p) : p \in B1 \cup B2 \cup B3 \cup {[k |-> "not", e |-> x] : x \in {z \in B2 : z.l = A1}}}

\* sub-queries
SubPreds == {TRUEF, A1, A2, [k |-> "atom", sym |-> <<"boss">>, a |-> IsNull(TRUE)], [k |-> "anyOf", sym |-> <<"roles">>, a |-> Cmp("eq", S(sB))],
             \* the same set symbol at two nesting levels (the inner evaluation runs while the outer iteration is under way)
             [k |-> "not", e |-> [k |-> "isEmpty", sym |-> <<"peers">>]],
             [k |-> "not", e |-> [k |-> "isEmptyq", sym |-> <<"peers">>, q |-> Q(A2)]],
             [k |-> "countq", sym |-> <<"peers">>, q |-> Q(TRUEF), op |-> "gt", n |-> N(1)]}
SubQs == {[p |-> p, sort |-> << >>, skip |-> sk, limit |-> li] : p \in SubPreds, sk \in {NoVal, 1}, li \in {NoVal, 1}}
PlacePreds == {TRUEF, A1, [k |-> "atom", sym |-> <<"s">>, a |-> IsNull(FALSE)], [k |-> "atom", sym |-> <<"id">>, a |-> Cmp("ne", S(s1))],
               [k |-> "not", e |-> [k |-> "atom", sym |-> <<"s">>, a |-> Cmp("eq", S(sB))]]}
PlaceSubQs == {[p |-> p, sort |-> << >>, skip |-> sk, limit |-> li] : p \in PlacePreds, sk \in {NoVal, 1}, li \in {NoVal, 1}}
SubQ == {Q([k |-> "countq", sym |-> sym, q |-> q, op |-> op, n |-> n]) : sym \in {<<"peers">>}, q \in SubQs, op \in {"eq", "gt"}, n \in {N(0), N(1), N(2)}}
        \cup {Q([k |-> "isEmptyq", sym |-> sym, q |-> q]) : sym \in {<<"peers">>, <<"boss", "peers">>}, q \in SubQs}
        \* sub-queries over a set whose linked type is the plain child store: only rows with child data are seen
        \cup {Q([k |-> "countq", sym |-> sym, q |-> q, op |-> op, n |-> n]) : sym \in {<<"kids">>, <<"boss", "kids">>}, q \in SubQs, op \in {"eq", "gt"}, n \in {N(0), N(1)}}
        \cup {Q([k |-> "isEmptyq", sym |-> sym, q |-> q]) : sym \in {<<"kids">>, <<"boss", "kids">>}, q \in SubQs}
        \cup {Q([k |-> fn, sym |-> <<"kids">>, a |-> Cmp("eq", S(sA))]) : fn \in {"anyOf", "allOf"}} \cup {Q([k |-> "isEmpty", sym |-> <<"kids">>])}
        \* sub-queries whose elements are of another entity type than the row (and than the first hop of the chain)
        \cup {Q([k |-> "countq", sym |-> sym, q |-> q, op |-> op, n |-> n]) : sym \in {<<"places">>, <<"boss", "places">>}, q \in PlaceSubQs, op \in {"eq", "gt"}, n \in {N(0), N(1)}}
        \cup {Q([k |-> "isEmptyq", sym |-> sym, q |-> q]) : sym \in {<<"places">>, <<"boss", "places">>}, q \in PlaceSubQs}
        \cup {Q([k |-> "not", e |-> [k |-> "isEmptyq", sym |-> sym, q |-> q]]) : sym \in {<<"boss", "places">>}, q \in PlaceSubQs}

\* sub-queries with a sort clause of their own (legal; without paging it cannot change what the set function sees) -- the sort fields
\* are symbols the query references like any other
SortedSubQs == {[p |-> p, sort |-> so, skip |-> NoVal, limit |-> NoVal] : p \in {TRUEF, A1},
                 so \in {<<[sym |-> <<"m">>, asc |-> TRUE]>>, <<[sym |-> <<"n">>, asc |-> FALSE], [sym |-> <<"boss">>, asc |-> TRUE]>>}}
SubQSorted == {Q([k |-> "countq", sym |-> sym, q |-> q, op |-> "gt", n |-> N(0)]) : sym \in {<<"peers">>, <<"boss", "peers">>}, q \in SortedSubQs}
              \cup {Q([k |-> "isEmptyq", sym |-> <<"peers">>, q |-> q]) : q \in SortedSubQs}
              \cup {Q([k |-> "isEmptyq", sym |-> <<"peers">>, q |-> Q([k |-> "not", e |-> [k |-> "isEmptyq", sym |-> <<"peers">>, q |-> q]])]) : q \in SortedSubQs}

\* sorting and paging
SortSyms == {<<"s">>, <<"n">>, <<"m">>, <<"f">>, <<"b">>, <<"t">>, <<"id">>, <<"boss">>}
Sorts == {<< >>} \cup {<<[sym |-> a, asc |-> d]>> : a \in SortSyms, d \in BOOLEAN}
         \cup {<<[sym |-> a, asc |-> d], [sym |-> b, asc |-> e]>> : a \in {<<"s">>, <<"n">>, <<"b">>, <<"t">>}, b \in {<<"f">>, <<"m">>, <<"id">>, <<"s">>}, d \in BOOLEAN, e \in BOOLEAN}
         \cup {<<[sym |-> <<"b">>, asc |-> d], [sym |-> <<"n">>, asc |-> TRUE], [sym |-> <<"s">>, asc |-> FALSE], [sym |-> <<"t">>, asc |-> d], [sym |-> <<"f">>, asc |-> FALSE]>> : d \in BOOLEAN}
         \cup {<<[sym |-> <<"id">>, asc |-> d], [sym |-> <<"s">>, asc |-> TRUE]>> : d \in BOOLEAN}
         \* more sort fields than the fast scanner takes: five that tie in groups, the sixth decides (against the id order)
         \cup {<<[sym |-> <<"b">>, asc |-> TRUE], [sym |-> <<"b">>, asc |-> TRUE], [sym |-> <<"b">>, asc |-> TRUE], [sym |-> <<"b">>, asc |-> TRUE],
                 [sym |-> <<"b">>, asc |-> TRUE], [sym |-> <<"n">>, asc |-> d]>> : d \in BOOLEAN}
         \cup {<<[sym |-> <<"s">>, asc |-> TRUE], [sym |-> <<"id">>, asc |-> FALSE], [sym |-> <<"n">>, asc |-> TRUE]>>}
Skips == {NoVal, 0, 1, 2, 5, 7, -1, -3}
Limits == {NoVal, NoneLimit, -1, 0, 1, 2, 5, 100}
PagePreds == {TRUEF, A2, [k |-> "not", e |-> A2]}
PageQ == {[p |-> p, sort |-> so, skip |-> sk, limit |-> li] : p \in PagePreds, so \in Sorts, sk \in Skips, li \in Limits}

\* minimal inputs of the named deviations (Query!Dev)
ProbeQ == {Q([k |-> "atom", sym |-> <<"b">>, a |-> Cmp("eq", B(FALSE))]), Q([k |-> "atom", sym |-> <<"b">>, a |-> Cmp("ne", B(TRUE))])}

\* C10: every operator x every symbol shape x every literal kind, well-typed or not, also set functions over non-set symbols and
\* plain comparisons of set symbols: the engine must answer with an error or a query that evaluates without panicking
AllAtoms == StrAtoms \cup NumAtoms \cup BoolAtoms \cup DateAtoms \cup AnyAtoms \cup BDAtoms
            \cup {Btw(neg, lo, hi) : neg \in BOOLEAN, lo \in {S(sA)}, hi \in {S(sB)}}
\* (blob: a symbol declared with a type the query language has no operations for)
MixSyms == ScalarSyms \cup SetSyms \cup {<<"createdAt">>, <<"nosuch">>, <<"tags">>, <<"boss", "nosuch">>, <<"blob">>, <<"boss", "blob">>, <<"lbl">>}
MixQ == {Q([k |-> w, sym |-> sym, a |-> a]) : w \in {"atom", "anyOf", "allOf"}, sym \in MixSyms, a \in AllAtoms}
        \cup {Q([k |-> "count", sym |-> sym, op |-> op, n |-> n]) : sym \in MixSyms, op \in {"eq", "lt"}, n \in {N(1), F2(3), S(sA), B(TRUE), D(1), Nil}}
        \cup {Q([k |-> "isEmpty", sym |-> sym]) : sym \in MixSyms} \cup {Q([k |-> "boolsym", sym |-> sym]) : sym \in MixSyms}
        \cup {[p |-> TRUEF, sort |-> <<[sym |-> sym, asc |-> TRUE]>>, skip |-> NoVal, limit |-> NoVal] : sym \in MixSyms}
        \* sorted queries whose page is empty by construction
        \cup {[p |-> TRUEF, sort |-> <<[sym |-> sym, asc |-> TRUE]>>, skip |-> sk, limit |-> 0] : sym \in {<<"s">>, <<"n">>, <<"id">>, <<"boss", "s">>}, sk \in {NoVal, 0, -1, 7}}
        \* a valid set function first, then a set symbol where a scalar belongs (rejected at parse time, not evaluated without a cursor)
        \cup {Q([k |-> c, l |-> [k |-> "isEmpty", sym |-> <<"roles">>], r |-> [k |-> "atom", sym |-> sym, a |-> Cmp("eq", S(sA))]]) : c \in {"and", "or"}, sym \in SetSyms}
        \cup {Q([k |-> "or", l |-> [k |-> "anyOf", sym |-> <<"peers", "s">>, a |-> Cmp("eq", S(sA))], r |-> [k |-> "atom", sym |-> sym, a |-> IsNull(FALSE)]]) : sym \in SetSyms}
        \* a set symbol where a scalar belongs, inside a sub-query (the enclosing set function must not make it acceptable)
        \cup {Q([k |-> "isEmptyq", sym |-> <<"peers">>, q |-> Q([k |-> "atom", sym |-> sym, a |-> Cmp("eq", S(sA))])]) : sym \in SetSyms}
        \cup {Q([k |-> "not", e |-> [k |-> "isEmptyq", sym |-> <<"boss", "peers">>, q |-> Q([k |-> "atom", sym |-> sym, a |-> IsNull(TRUE)])]]) : sym \in SetSyms}
        \* sub-queries over symbols that are no entity sets (scalars, string sets, maps, unknown names), also nested
        \cup {Q([k |-> "isEmptyq", sym |-> sym, q |-> Q(p)]) : sym \in MixSyms, p \in {TRUEF, A1}}
        \cup {Q([k |-> "countq", sym |-> sym, q |-> Q(TRUEF), op |-> "gt", n |-> N(0)]) : sym \in MixSyms}
        \cup {Q([k |-> "isEmptyq", sym |-> <<"peers">>, q |-> Q([k |-> "isEmptyq", sym |-> sym, q |-> Q(TRUEF)])]) : sym \in MixSyms}

\* a symbol and dotted paths that start with it, in one query (the head being public says nothing about the paths)
BossNull == [k |-> "atom", sym |-> <<"boss">>, a |-> IsNull(TRUE)]
BossS == [k |-> "atom", sym |-> <<"boss", "s">>, a |-> Cmp("eq", S(sA))]
HeadQ == {Q([k |-> c, l |-> BossNull, r |-> BossS]) : c \in {"and", "or"}} \cup {Q([k |-> "and", l |-> BossS, r |-> BossNull])}
         \cup {[p |-> BossNull, sort |-> <<[sym |-> <<"boss">>, asc |-> TRUE], [sym |-> <<"boss", "s">>, asc |-> FALSE]>>, skip |-> NoVal, limit |-> NoVal],
               [p |-> TRUEF, sort |-> <<[sym |-> <<"boss">>, asc |-> TRUE], [sym |-> <<"boss", "n">>, asc |-> TRUE]>>, skip |-> NoVal, limit |-> NoVal],
               [p |-> [k |-> "atom", sym |-> <<"tags", "k">>, a |-> IsNull(TRUE)], sort |-> <<[sym |-> <<"boss", "s">>, asc |-> TRUE]>>, skip |-> NoVal, limit |-> NoVal]}
SortSymQ == {[p |-> p, sort |-> so, skip |-> NoVal, limit |-> NoVal] : p \in PagePreds \cup {A1, A4}, so \in Sorts} \cup HeadQ

\* C11: string literals in every operand position of symbols backed by the real stores: own field, id, fields reached through a
\* foreign key (the empty string is a value, not "no value"), map values
LitSyms == {<<"s">>, <<"id">>, <<"boss", "s">>, <<"boss", "boss", "s">>, <<"boss", "id">>, <<"tags", "k">>}
LitQ == {Q([k |-> "atom", sym |-> sym, a |-> a]) : sym \in LitSyms, a \in {x \in StrAtoms : x.k # "null" /\ (x.k = "cmp" => x.lit.t = "s")}}
        \cup {Q([k |-> fn, sym |-> sym, a |-> a]) : fn \in {"anyOf", "allOf"}, sym \in {<<"roles">>, <<"peers", "s">>, <<"peers", "boss", "s">>},
                                                   a \in {Cmp("eq", S(sE)), Cmp("ne", S(sE)), In(FALSE, {S(sA), S(sUAB), S(sE)}), Has(FALSE, FALSE, S(sE))}}

\* integer literals at the ends of the 64-bit range (beyond what a float64 holds exactly), against values there (dataset D4)
BigLits == {NBig, N(999999), N(999998), NSmall, N(-999999), N(0), N(-2)}
BigQ == {Q([k |-> "atom", sym |-> <<"n">>, a |-> Cmp(op, l)]) : op \in Ops6, l \in BigLits}
        \cup {Q([k |-> "atom", sym |-> <<"n">>, a |-> In(neg, ls)]) : neg \in BOOLEAN, ls \in {{NBig}, {N(999999), NSmall}, {N(999998)}}}
        \cup {Q([k |-> "atom", sym |-> <<"n">>, a |-> Btw(neg, lo, hi)]) : neg \in BOOLEAN, lo \in {NSmall, N(999999)}, hi \in {NBig, N(999999)}}
        \cup {Q([k |-> "atom", sym |-> <<"boss", "n">>, a |-> Cmp(op, NBig)]) : op \in {"eq", "lt", "ge"}}

QueriesOf(m) == CASE m = "lit" -> LitQ [] m = "big" -> BigQ [] m = "datasets" -> {Q(TRUEF)} [] m = "probe" -> ProbeQ [] m = "sortsyms" -> SortSymQ [] m = "mix" -> MixQ [] m = "scalar" -> ScalarQ [] m = "set" -> SetQ [] m = "bool" -> BoolQ [] m = "subq" -> SubQ \cup SubQSorted [] m = "page" -> PageQ

\* one case per (dataset, query); sharded by a cheap hash so that several TLC processes split a slice
VARIABLES ds, q, n
Init == /\ ds \in Datasets
        /\ q \in QueriesOf(Mode)
        /\ n = 0
Next == n = 0 /\ n' = 1 /\ UNCHANGED <<ds, q>>

Emit == n = 1 => IF Mode = "datasets" THEN PrintT(ToJson([dataset |-> ds]))
                 ELSE IF Mode = "mix" THEN PrintT(ToJson([ds |-> ds.name, q |-> q, ids |-> << >>, count |-> 0, syms |-> << >>])) ELSE
                 LET ans == Answer(ds, RowIds(ds), q)
                     kid == Answer(ds, KidRows(ds), q)        \* the same query asked of the plain child store: the rows that have child data
                 IN PrintT(ToJson([ds |-> ds.name, q |-> q, ids |-> ans.ids, count |-> ans.count, syms |-> QSyms(q), kidIds |-> kid.ids, kidCount |-> kid.count]))
=============================================================================
