----------------------------- MODULE QueryRand -----------------------------
(* Additional datasets for QueryCases.tla.  The committed module has none; the thorough tiers of C01 / C02 / C19 replace it (in their
   scratch copy of the specifications) by a module generated from the run's seed: random rows over the same value pools, written out
   as plain records (bin/querychecks.py, rand_module). *)
RandDatasets == {}
=============================================================================
