------------------------------- MODULE Store -------------------------------
(***************************************************************************)
(* Specification of the entity/CRUD layer of openziti/storage (boltz):     *)
(* entities of a parent store `people`, its child (extension) store        *)
(* `staff`, a second root store `teams`; unique / nullable-unique / set    *)
(* indexes, foreign keys in every wiring the library offers, many-to-many  *)
(* link collections and ref-counted link collections, the system-entity    *)
(* constraint, transactions (Update/Batch, pre-commit actions, commit      *)
(* actions, roll-back) and entity change events.                           *)
(*                                                                         *)
(* The specification is written to be bound to the code (DESIGN.md 2):     *)
(*  - one action per public call; a store call that is rejected aborts the *)
(*    transaction in the same step (the transaction body propagates every  *)
(*    error -- DESIGN 3.2);                                                *)
(*  - the redundant state the code keeps (index buckets, back-reference    *)
(*    sets, both sides of every link) is explicit and is maintained by the *)
(*    protocol the code uses (capture old / persist / delete old key /     *)
(*    check / put new), so "indexes mirror entities" is a theorem TLC has  *)
(*    to establish, not something true by construction;                    *)
(*  - every store call is a pure operator  db -> [db, errs, evs, ret]  so  *)
(*    that the generator (StoreGen), the trace validator (StoreTrace) and  *)
(*    the integrity model (Integrity) reuse exactly the same definitions.  *)
(***************************************************************************)
EXTENDS Naturals, Sequences, FiniteSets, TLC

CONSTANTS
  Ids,            \* ids of the people store (strings)
  Teams,          \* ids of the teams store
  Names,          \* values of the unique field `name` ("" allowed: refused by the index)
  Nicks,          \* values of the nullable unique field `nick` ("" allowed; NIL is added)
  Roles,          \* elements of the set field `roles` ("" = a key the storage layer refuses, "LONGR" = an over-long element: refused when the entity is written)
  Grades,         \* values of the child store's unique field `grade`
  BadNames,       \* names the storage layer refuses as index key (over-long) -- subset of Names
  BossMode,       \* wiring of people.boss -> people : off | idxNull | idxCascade | conNoneNull | conCascadeNull
  TeamMode,       \* wiring of people.team -> teams  : off | idx | idxNull | idxCascade | conNone | conNoneNull | conCascade | conCascadeNull
  ChildExtended,  \* staff declared Extended()
  LinksViaEntity, \* people.teams is also written by Create/Update of a person (SetLinkedIds)
  SysScope,       \* where the system-entity constraint is registered: "parent" (guards every entity) | "child" (guards what the child store handles)
  ChildFeatures   \* constraints and link sets registered on the *child* store: teams.chief -> staff (nullable fk index, back-reference set
                  \* staff.chiefOf: a child-store constraint that refuses deletes) and the link collection staff.squads <-> teams.squadStaff

NIL   == "~"       \* the null value
NoEnt == [none |-> TRUE]   \* "no such entity" / "no child data" (a record: TLC cannot compare a record with a string)
NoLt  == {"~"}             \* "the call does not write the link set"

FkKind(m)     == IF m = "off" THEN "off" ELSE IF m \in {"idx", "idxNull", "idxCascade"} THEN "index" ELSE "constraint"
FkNullable(m) == m \in {"off", "idxNull", "conNoneNull", "conCascadeNull"}
FkCascade(m)  == m \in {"idxCascade", "conCascade", "conCascadeNull"}

PFields == {"name", "nick", "roles", "boss", "team", "teams"}   \* what a field checker can select on a person ("teams" = the link set, when LinksViaEntity)
XFields == {"lead", "grade"}                                    \* ... and on the child part
AllFields == PFields \cup XFields

BadRoles == {"", "LONGR"}      \* role values some write of the call fails on
NoVal(v) == v \in {NIL, ""}    \* nil and the empty string are both "no value" for an index (len(value) = 0)

-----------------------------------------------------------------------------
(* The persistent state: one record, so that a transaction snapshot is a value *)

InitDb ==
  [ ent      |-> [i \in Ids |-> NoEnt],                 \* id -> person record
    ext      |-> [i \in Ids |-> NoEnt],                 \* id -> child data record
    tms      |-> {},                                    \* present teams
    uName    |-> [v \in Names |-> NIL],                 \* unique index buckets: value -> id
    uNick    |-> [v \in Nicks |-> NIL],
    uGrade   |-> [v \in Grades |-> NIL],
    sRoles   |-> [r \in Roles |-> {}],                  \* set index: value -> ids
    sKeys    |-> {},                                    \* set index: key buckets that exist
    backBoss |-> [i \in Ids |-> {}],                    \* back-reference sets (fk index wiring only)
    backTeam |-> [t \in Teams |-> {}],
    lnkPT    |-> [i \in Ids |-> {}],                    \* link collection people.teams <-> teams.members
    lnkTP    |-> [t \in Teams |-> {}],
    rcPT     |-> [i \in Ids |-> [t \in Teams |-> 0]],   \* ref-counted links people.svc <-> teams.users (0 = absent)
    rcTP     |-> [t \in Teams |-> [i \in Ids |-> 0]],
    chief    |-> [t \in Teams |-> NIL],                 \* teams.chief: an id that has child data, or NIL     (ChildFeatures)
    backChief |-> [i \in Ids |-> {}],                   \* staff.chiefOf, kept inside the child part of the entity
    lnkST    |-> [i \in Ids |-> {}],                    \* link collection staff.squads <-> teams.squadStaff
    lnkTS    |-> [t \in Teams |-> {}] ]

Present(d, i)  == d.ent[i] # NoEnt
HasExt(d, i)   == d.ext[i] # NoEnt
\* what FindById through the child store finds
ChildSees(d, i) == HasExt(d, i) \/ (ChildExtended /\ Present(d, i))

-----------------------------------------------------------------------------
(* Index protocols, as the code runs them.  Each returns the new index and  *)
(* the set of error classes raised.                                         *)

\* uniqueIndex.ProcessAfterUpdate
UniqUpd(idx, isCreate, old, new, id, nullable, bad) ==
  IF ~isCreate /\ ((NoVal(old) /\ NoVal(new)) \/ old = new) THEN [idx |-> idx, errs |-> {}]
  ELSE LET i1 == IF ~NoVal(old) /\ ~isCreate THEN [idx EXCEPT ![old] = NIL] ELSE idx
       IN  IF NoVal(new) THEN [idx |-> i1, errs |-> IF nullable THEN {} ELSE {"emptyUnique"}]
           ELSE IF i1[new] # NIL THEN [idx |-> i1, errs |-> {"dup"}]
           ELSE IF new \in bad THEN [idx |-> i1, errs |-> {"storage"}]
           ELSE [idx |-> [i1 EXCEPT ![new] = id], errs |-> {}]

\* uniqueIndex.ProcessBeforeDelete
UniqDel(idx, val) == IF NoVal(val) THEN idx ELSE [idx EXCEPT ![val] = NIL]

\* setIndex.ProcessAfterUpdate / ProcessBeforeDelete (new = {} for delete)
SetUpd(sr, sk, old, new, id) ==
  IF old = new THEN [sr |-> sr, sk |-> sk, errs |-> {}]
  ELSE [ sr   |-> [r \in DOMAIN sr |-> IF r \in new THEN sr[r] \cup {id}
                                        ELSE IF r \in old THEN sr[r] \ {id} ELSE sr[r]],
         sk   |-> ((sk \ {r \in old : sr[r] \ {id} = {}}) \cup {r \in old : sr[r] \ {id} # {}}) \cup new,
         errs |-> IF (old \cup new) \cap BadRoles # {} THEN {"storage"} ELSE {} ]

\* fkIndex / fkConstraint . ProcessAfterUpdate ; tgt = set of ids the reference may name
FkUpd(back, kind, isCreate, old, new, id, nullable, tgt) ==
  IF kind = "off" \/ (~isCreate /\ ((NoVal(old) /\ NoVal(new)) \/ old = new)) THEN [back |-> back, errs |-> {}]
  ELSE LET b1 == IF kind = "index" /\ ~isCreate /\ ~NoVal(old) /\ old \in DOMAIN back
                 THEN [back EXCEPT ![old] = @ \ {id}] ELSE back
       IN  IF NoVal(new) THEN [back |-> b1, errs |-> IF nullable THEN {} ELSE {"fkNull"}]
           ELSE IF new \notin tgt THEN [back |-> b1, errs |-> {"fkMissing"}]
           ELSE [back |-> IF kind = "index" THEN [b1 EXCEPT ![new] = @ \cup {id}] ELSE b1, errs |-> {}]

-----------------------------------------------------------------------------
(* Events: [st, ty, id, pl] -- store, change type, entity id, payload (the   *)
(* state handed to the listener: final state for create/update, last state  *)
(* for delete; abstracted to name, nick and, on the child store, grade and  *)
(* lead).                                                                   *)

Ev(st, ty, id, pl) == [st |-> st, ty |-> ty, id |-> id, pl |-> pl]
EvsFor(ty, id, p, x) ==
  IF x = NoEnt THEN << Ev("people", ty, id, <<p.name, p.nick>>) >>
  ELSE << Ev("people", ty, id, <<p.name, p.nick>>), Ev("staff", ty, id, <<p.name, p.nick, x.grade, x.lead>>) >>

Res(d, errs, evs, ret) == [db |-> d, errs |-> errs, evs |-> evs, ret |-> ret]

-----------------------------------------------------------------------------
(* Link collections                                                         *)

\* AddLinks from the people side (person p, set of teams ts) ; symmetric variant below
AddLinksP(d, p, ts) ==
  IF ~Present(d, p) THEN Res(d, {"other"}, << >>, NIL)
  ELSE IF ~(ts \subseteq d.tms) THEN Res(d, {"notfound"}, << >>, NIL)
  ELSE Res([d EXCEPT !.lnkPT[p] = @ \cup ts,
                     !.lnkTP = [t \in Teams |-> IF t \in ts THEN d.lnkTP[t] \cup {p} ELSE d.lnkTP[t]]],
           {}, << >>, NIL)
AddLinksT(d, t, ps) ==
  IF t \notin d.tms THEN Res(d, {"other"}, << >>, NIL)
  ELSE IF \E p \in ps : ~Present(d, p) THEN Res(d, {"notfound"}, << >>, NIL)
  ELSE Res([d EXCEPT !.lnkTP[t] = @ \cup ps,
                     !.lnkPT = [p \in Ids |-> IF p \in ps THEN d.lnkPT[p] \cup {t} ELSE d.lnkPT[p]]],
           {}, << >>, NIL)
\* RemoveLinks never complains about absent links or absent other entities
RemoveLinksP(d, p, ts) ==
  IF ~Present(d, p) THEN Res(d, {"other"}, << >>, NIL)
  ELSE Res([d EXCEPT !.lnkPT[p] = @ \ ts,
                     !.lnkTP = [t \in Teams |-> IF t \in ts THEN d.lnkTP[t] \ {p} ELSE d.lnkTP[t]]],
           {}, << >>, NIL)
RemoveLinksT(d, t, ps) ==
  IF t \notin d.tms THEN Res(d, {"other"}, << >>, NIL)
  ELSE Res([d EXCEPT !.lnkTP[t] = @ \ ps,
                     !.lnkPT = [p \in Ids |-> IF p \in ps THEN d.lnkPT[p] \ {t} ELSE d.lnkPT[p]]],
           {}, << >>, NIL)
\* SetLinks(p, req): specification = "exactly the requested set"; the merge the code performs is checked against it in LinkMerge.tla
SetLinksP(d, p, reqSet) ==
  IF ~Present(d, p) THEN Res(d, {"other"}, << >>, NIL)
  ELSE IF ~(reqSet \subseteq d.tms) THEN Res(d, {"notfound"}, << >>, NIL)
  ELSE Res([d EXCEPT !.lnkPT[p] = reqSet,
                     !.lnkTP = [t \in Teams |-> IF t \in reqSet THEN d.lnkTP[t] \cup {p} ELSE d.lnkTP[t] \ {p}]],
           {}, << >>, NIL)
SetLinksT(d, t, reqSet) ==
  IF t \notin d.tms THEN Res(d, {"other"}, << >>, NIL)
  ELSE IF \E p \in reqSet : ~Present(d, p) THEN Res(d, {"notfound"}, << >>, NIL)
  ELSE Res([d EXCEPT !.lnkTP[t] = reqSet,
                     !.lnkPT = [p \in Ids |-> IF p \in reqSet THEN d.lnkPT[p] \cup {t} ELSE d.lnkPT[p] \ {t}]],
           {}, << >>, NIL)
\* the same three calls on the collection registered on the child store: "present" means "has child data"
LinksS(d, name, p, ts) ==
  IF ~HasExt(d, p) THEN Res(d, {"other"}, << >>, NIL)
  ELSE IF name # "removeLinks" /\ ~(ts \subseteq d.tms) THEN Res(d, {"notfound"}, << >>, NIL)
  ELSE LET new == CASE name = "addLinks" -> d.lnkST[p] \cup ts [] name = "removeLinks" -> d.lnkST[p] \ ts [] name = "setLinks" -> ts
       IN Res([d EXCEPT !.lnkST[p] = new, !.lnkTS = [t \in Teams |-> IF t \in new THEN d.lnkTS[t] \cup {p} ELSE d.lnkTS[t] \ {p}]], {}, << >>, NIL)
LinksTS(d, name, t, ps) ==
  IF t \notin d.tms THEN Res(d, {"other"}, << >>, NIL)
  ELSE IF name # "removeLinks" /\ (\E p \in ps : ~HasExt(d, p)) THEN Res(d, {"notfound"}, << >>, NIL)
  ELSE LET new == CASE name = "addLinks" -> d.lnkTS[t] \cup ps [] name = "removeLinks" -> d.lnkTS[t] \ ps [] name = "setLinks" -> ps
       IN Res([d EXCEPT !.lnkTS[t] = new, !.lnkST = [p \in Ids |-> IF p \in new THEN d.lnkST[p] \cup {t} ELSE d.lnkST[p] \ {t}]], {}, << >>, NIL)

\* AddLink / RemoveLink (single, returns whether the local side changed)
AddLinkP(d, p, t) ==
  IF ~Present(d, p) THEN Res(d, {"other"}, << >>, NIL)
  ELSE IF t \notin d.tms THEN Res(d, {"notfound"}, << >>, NIL)
  ELSE Res([d EXCEPT !.lnkPT[p] = @ \cup {t}, !.lnkTP[t] = @ \cup {p}], {}, << >>, t \notin d.lnkPT[p])
RemoveLinkP(d, p, t) ==
  IF ~Present(d, p) THEN Res(d, {"other"}, << >>, NIL)
  ELSE Res([d EXCEPT !.lnkPT[p] = @ \ {t}, !.lnkTP[t] = @ \ {p}], {}, << >>, t \in d.lnkPT[p])

\* ref-counted links, from the people side (the team side is symmetric and is exercised by the harness through the same model step)
RcIncP(d, p, t) ==
  IF ~Present(d, p) THEN Res(d, {"other"}, << >>, NIL)
  ELSE IF t \notin d.tms THEN Res(d, {"notfound"}, << >>, NIL)
  ELSE Res([d EXCEPT !.rcPT[p][t] = @ + 1, !.rcTP[t][p] = @ + 1], {}, << >>, d.rcPT[p][t] + 1)
RcDecP(d, p, t) ==
  IF ~Present(d, p) THEN Res(d, {"other"}, << >>, NIL)
  ELSE IF d.rcPT[p][t] = 0 THEN Res(d, {}, << >>, "absent")      \* returns -1, changes nothing
  ELSE Res([d EXCEPT !.rcPT[p][t] = @ - 1, !.rcTP[t][p] = @ - 1], {}, << >>, d.rcPT[p][t] - 1)
RcSetP(d, p, t, c) ==
  IF ~Present(d, p) THEN Res(d, {"other"}, << >>, NIL)
  ELSE IF t \notin d.tms THEN Res(d, {"notfound"}, << >>, NIL)
  ELSE Res([d EXCEPT !.rcPT[p][t] = c, !.rcTP[t][p] = c], {}, << >>, d.rcPT[p][t])   \* returns the old count

-----------------------------------------------------------------------------
(* Store calls                                                              *)

BossTargets(d, self) == {i \in Ids : Present(d, i)} \cup {self}   \* own bucket exists while the row is being written

\* common part of Create and Update: run the constraints in registration order over (old -> new)
\* and build the new state.  isCreate: no captured old values.
\* lt: NoLt, or the set of teams the call writes into people.teams (LinksViaEntity)
Indexed(d, isCreate, id, old, new, oldX, newX, lt) ==
  LET un == UniqUpd(d.uName, isCreate, IF isCreate THEN NIL ELSE old.name, new.name, id, FALSE, BadNames)
      uk == UniqUpd(d.uNick, isCreate, IF isCreate THEN NIL ELSE old.nick, new.nick, id, TRUE, {})
      sr == SetUpd(d.sRoles, d.sKeys, IF isCreate THEN {} ELSE old.roles, new.roles, id)
      fb == FkUpd(d.backBoss, FkKind(BossMode), isCreate, IF isCreate THEN NIL ELSE old.boss, new.boss, id,
                  FkNullable(BossMode), BossTargets(d, id))
      ft == FkUpd(d.backTeam, FkKind(TeamMode), isCreate, IF isCreate THEN NIL ELSE old.team, new.team, id,
                  FkNullable(TeamMode), d.tms)
      ug == IF newX = NoEnt THEN [idx |-> d.uGrade, errs |-> {}]
            ELSE UniqUpd(d.uGrade, isCreate, IF isCreate \/ oldX = NoEnt THEN NIL ELSE oldX.grade, newX.grade, id, FALSE, {})
      \* people.teams written through the entity (SetLinkedIds): a SetLinks inside the persist step
      lk == IF lt # NoLt /\ ~(lt \subseteq d.tms) THEN {"notfound"} ELSE {}
      errs == un.errs \cup uk.errs \cup sr.errs \cup fb.errs \cup ft.errs \cup ug.errs \cup lk
      lset == IF lt # NoLt THEN lt ELSE d.lnkPT[id]
  IN [ errs |-> errs,
       db   |-> [d EXCEPT !.ent[id] = new, !.ext[id] = newX,
                          !.uName = un.idx, !.uNick = uk.idx, !.uGrade = ug.idx,
                          !.sRoles = sr.sr, !.sKeys = sr.sk,
                          !.backBoss = fb.back, !.backTeam = ft.back,
                          !.lnkPT[id] = lset,
                          !.lnkTP = [t \in Teams |-> IF t \in lset THEN d.lnkTP[t] \cup {id} ELSE d.lnkTP[t] \ {id}]] ]

\* Create(ctx, entity) through store `via`; p: person record, x: child record (NoEnt via the parent store)
CreateOp(d, sysctx, via, id, p, x, lt, veto) ==
  LET exists == IF via = "people" THEN Present(d, id) ELSE HasExt(d, id)
      ix     == Indexed(d, TRUE, id, p, p, NoEnt, x, IF LinksViaEntity THEN lt ELSE NoLt)
      errs   == ix.errs \cup (IF p.sys /\ ~sysctx /\ (SysScope = "parent" \/ via = "staff") THEN {"system"} ELSE {}) \cup (IF veto THEN {"veto"} ELSE {})
  IN IF exists THEN Res(d, {"exists"}, << >>, NIL)
     ELSE IF errs # {} THEN Res(d, errs, << >>, NIL)
     ELSE Res(ix.db, {}, EvsFor("created", id, p, x), NIL)

\* Update(ctx, entity, checker) through store `via`; fields = what the checker selects (AllFields = nil checker)
UpdateOp(d, sysctx, via, id, p, x, lt, fields, veto) ==
  LET viaChild == via = "staff" \/ HasExt(d, id)     \* the parent store hands the call to the child when child data exists
      missing  == IF via = "staff" THEN ~HasExt(d, id) ELSE ~Present(d, id)
  IN IF missing THEN Res(d, {"notfound"}, << >>, NIL)
     ELSE
       LET old  == d.ent[id]
           oldX == d.ext[id]
           new  == [ name  |-> IF "name"  \in fields THEN p.name  ELSE old.name,
                     nick  |-> IF "nick"  \in fields THEN p.nick  ELSE old.nick,
                     roles |-> IF "roles" \in fields THEN p.roles ELSE old.roles,
                     boss  |-> IF "boss"  \in fields THEN p.boss  ELSE old.boss,
                     team  |-> IF "team"  \in fields THEN p.team  ELSE old.team,
                     sys   |-> old.sys ]                       \* the flag is fixed at creation
           newX == IF ~viaChild THEN NoEnt
                   ELSE IF via = "staff"
                        THEN [ lead  |-> IF "lead"  \in fields THEN x.lead  ELSE oldX.lead,
                               grade |-> IF "grade" \in fields THEN x.grade ELSE oldX.grade ]
                        ELSE oldX                                \* routed from the parent: child fields keep their stored values
           ix   == Indexed(d, FALSE, id, old, new, oldX, newX, IF LinksViaEntity /\ "teams" \in fields THEN lt ELSE NoLt)
           errs == ix.errs \cup (IF old.sys /\ ~sysctx /\ (SysScope = "parent" \/ viaChild) THEN {"system"} ELSE {}) \cup (IF veto THEN {"veto"} ELSE {})
       IN IF errs # {} THEN Res(d, errs, << >>, NIL)
          ELSE Res(ix.db, {}, EvsFor("updated", id, new, newX), NIL)

\* the effect of deleting one person whose delete is not refused
DeletePersonEffect(d, id) ==
  LET p == d.ent[id]
      x == d.ext[id]
      sr == SetUpd(d.sRoles, d.sKeys, p.roles, {}, id)
  IN [d EXCEPT !.ent[id] = NoEnt, !.ext[id] = NoEnt,
               !.uName = UniqDel(d.uName, p.name), !.uNick = UniqDel(d.uNick, p.nick),
               !.uGrade = IF x = NoEnt THEN d.uGrade ELSE UniqDel(d.uGrade, x.grade),
               !.sRoles = sr.sr, !.sKeys = sr.sk,
               !.backBoss = [i \in Ids |-> IF i = id THEN {}
                                           ELSE IF FkKind(BossMode) = "index" /\ i = p.boss THEN d.backBoss[i] \ {id}
                                           ELSE d.backBoss[i]],
               !.backTeam = [t \in Teams |-> IF FkKind(TeamMode) = "index" /\ t = p.team THEN d.backTeam[t] \ {id}
                                             ELSE d.backTeam[t]],
               !.lnkPT[id] = {}, !.lnkTP = [t \in Teams |-> d.lnkTP[t] \ {id}],
               !.rcPT[id] = [t \in Teams |-> 0], !.rcTP = [t \in Teams |-> [d.rcTP[t] EXCEPT ![id] = 0]],
               !.backChief[id] = {},
               !.lnkST[id] = {}, !.lnkTS = [t \in Teams |-> d.lnkTS[t] \ {id}]]

\* who refuses the delete of person id
DeletePersonErrs(d, sysctx, id, veto) ==
  LET p == d.ent[id]
      refs == IF FkCascade(BossMode) THEN {}                                    \* (the referrers are deleted instead: DelTree)
              ELSE IF FkKind(BossMode) = "index" THEN d.backBoss[id] \ {id}     \* own back-reference is removed first
              ELSE IF FkKind(BossMode) = "constraint" /\ ~FkCascade(BossMode) THEN {e \in Ids : Present(d, e) /\ d.ent[e].boss = id}
              ELSE {}        \* (a cascading constraint deletes the referrers instead: DelTree)
  IN (IF refs # {} THEN {"refExists"} ELSE {})
     \cup (IF d.backChief[id] # {} THEN {"refExists"} ELSE {})       \* the delete constraint registered on the child store
     \cup (IF p.sys /\ ~sysctx /\ (SysScope = "parent" \/ HasExt(d, id)) THEN {"system"} ELSE {})
     \cup (IF p.roles \cap BadRoles # {} THEN {"storage"} ELSE {})
     \cup (IF veto THEN {"veto"} ELSE {})

\* (an Extended() child store also sees plain parents, with default child fields -- this is what the code does;
\*  C08 is checked on the non-extended wiring only)
DelEvs(d, id) ==
  IF HasExt(d, id) THEN EvsFor("deleted", id, d.ent[id], d.ext[id])
  ELSE IF ChildExtended THEN EvsFor("deleted", id, d.ent[id], [lead |-> FALSE, grade |-> ""])
  ELSE << Ev("people", "deleted", id, <<d.ent[id].name, d.ent[id].nick>>) >>

\* sorted sequence of a finite set under a strict total order given as a sequence of all elements
SortedBy(S, ordSeq) == LET F[k \in 0..Len(ordSeq)] ==
                             IF k = 0 THEN << >>
                             ELSE IF ordSeq[k] \in S THEN Append(F[k-1], ordSeq[k]) ELSE F[k-1]
                       IN F[Len(ordSeq)]

\* people.boss wired as a cascading constraint: deleting a person first deletes, one after the other in id order and each with its
\* own cascade, the persons whose boss it is -- except those whose delete is already under way further up (busy: a person that is its
\* own boss, a cycle of bosses); a referrer that an earlier referrer's cascade took along is gone by the time its turn comes.
\* The events of the cascaded deletes precede the event of the delete that caused them.
BossKids(d, id, busy) == IF FkCascade(BossMode) THEN {e \in Ids \ (busy \cup {id}) : Present(d, e) /\ d.ent[e].boss = id} ELSE {}
RECURSIVE DelTree(_, _, _, _, _, _), DelSeq(_, _, _, _, _, _)
DelTree(d, sysctx, id, veto, busy, Ord) ==
  LET own == DeletePersonErrs(d, sysctx, id, veto)
      sub == DelSeq(d, sysctx, SortedBy(BossKids(d, id, busy), Ord), busy \cup {id}, Ord, FALSE)
  IN IF own \cup sub.errs # {} THEN Res(d, own \cup sub.errs, << >>, NIL)
     ELSE Res(DeletePersonEffect(sub.db, id), {}, sub.evs \o DelEvs(sub.db, id), NIL)
\* strict: the ids were collected beforehand (DeleteWhere) -- one that is gone by its turn fails the call with not-found;
\* otherwise (a cascade walking a live cursor) it is simply no longer met
DelSeq(d, sysctx, todo, busy, Ord, strict) ==
  IF todo = << >> THEN Res(d, {}, << >>, NIL)
  ELSE IF ~Present(d, todo[1]) THEN (IF strict THEN Res(d, {"notfound"}, << >>, NIL) ELSE DelSeq(d, sysctx, Tail(todo), busy, Ord, strict))
  ELSE LET one == DelTree(d, sysctx, todo[1], FALSE, busy, Ord)
       IN IF one.errs # {} THEN Res(d, one.errs, << >>, NIL)
          ELSE LET rest == DelSeq(one.db, sysctx, Tail(todo), busy, Ord, strict)
               IN Res(rest.db, rest.errs, one.evs \o rest.evs, NIL)

\* DeleteById through either store (the child forwards to the root)
DeleteOp(d, sysctx, id, veto, Ord) ==
  IF ~Present(d, id) THEN Res(d, {"notfound"}, << >>, NIL)
  ELSE DelTree(d, sysctx, id, veto, {}, Ord)

\* chief: NIL or an id; the target of teams.chief has to be present in the *child* store
CreateTeamOp(d, t, chief) ==
  IF t \in d.tms THEN Res(d, {"exists"}, << >>, NIL)
  ELSE IF chief # NIL /\ ~HasExt(d, chief) THEN Res(d, {"fkMissing"}, << >>, NIL)
  ELSE Res([d EXCEPT !.tms = @ \cup {t}, !.chief[t] = chief,
                     !.backChief = [i \in Ids |-> IF i = chief THEN d.backChief[i] \cup {t} ELSE d.backChief[i]]],
           {}, << Ev("teams", "created", t, << >>) >>, NIL)
UpdateTeamOp(d, t, chief) ==
  IF t \notin d.tms THEN Res(d, {"notfound"}, << >>, NIL)
  ELSE IF chief # NIL /\ chief # d.chief[t] /\ ~HasExt(d, chief) THEN Res(d, {"fkMissing"}, << >>, NIL)
  ELSE Res([d EXCEPT !.chief[t] = chief,
                     !.backChief = [i \in Ids |-> IF i = chief THEN d.backChief[i] \cup {t} ELSE d.backChief[i] \ {t}]],
           {}, << Ev("teams", "updated", t, << >>) >>, NIL)

\* cascade from another store (people.team): delete the referrers one after the other, in id order, walking a live cursor
CascadeDel(d, sysctx, todo, Ord) == DelSeq(d, sysctx, todo, {}, Ord, FALSE)

\* DeleteWhere(query) through store `via`: the ids come from the query of *that* store -- a plain child store sees only
\* entities with child data, and only it knows the child's own fields -- then DeleteById one after the other in id order;
\* the first refusal ends the call.  pred = <<"all", "">> | <<"name", v>> | <<"grade", g>>
Visible(d, via, id) == Present(d, id) /\ (via = "people" \/ HasExt(d, id) \/ ChildExtended)
WhereMatch(d, pred, id) == CASE pred[1] = "all" -> TRUE
                             [] pred[1] = "name" -> d.ent[id].name = pred[2]
                             [] pred[1] = "grade" -> HasExt(d, id) /\ d.ext[id].grade = pred[2]
DeleteWhereOp(d, sysctx, via, pred, idOrder) ==
  DelSeq(d, sysctx, SortedBy({id \in Ids : Visible(d, via, id) /\ WhereMatch(d, pred, id)}, idOrder), {}, idOrder, TRUE)

DeleteTeamOp(d, sysctx, t, idOrder) ==
  IF t \notin d.tms THEN Res(d, {"notfound"}, << >>, NIL)
  ELSE
    LET byVal == {e \in Ids : Present(d, e) /\ d.ent[e].team = t}
        refs  == IF FkKind(TeamMode) = "off" THEN {}
                 ELSE IF TeamMode \in {"idx", "idxNull"} THEN d.backTeam[t]
                 ELSE byVal
        casc  == IF FkCascade(TeamMode) THEN CascadeDel(d, sysctx, SortedBy(byVal, idOrder), idOrder)
                 ELSE IF refs # {} THEN Res(d, {"refExists"}, << >>, NIL) ELSE Res(d, {}, << >>, NIL)
    IN IF casc.errs # {} THEN Res(d, casc.errs, << >>, NIL)
       ELSE LET d1 == casc.db
            IN Res([d1 EXCEPT !.tms = @ \ {t},
                              !.chief[t] = NIL, !.backChief = [i \in Ids |-> d1.backChief[i] \ {t}],
                              !.lnkTS[t] = {}, !.lnkST = [p \in Ids |-> d1.lnkST[p] \ {t}],
                              !.backTeam[t] = {},
                              !.lnkTP[t] = {}, !.lnkPT = [p \in Ids |-> d1.lnkPT[p] \ {t}],
                              !.rcTP[t] = [p \in Ids |-> 0], !.rcPT = [p \in Ids |-> [d1.rcPT[p] EXCEPT ![t] = 0]]],
                   {}, casc.evs \o << Ev("teams", "deleted", t, << >>) >>, NIL)

-----------------------------------------------------------------------------
(* Properties of a database value (evaluated on committed states and, as   *)
(* the code maintains them call by call, inside transactions too)          *)

\* C03
UniqueMirrors(d) ==
  /\ \A v \in Names  : d.uName[v]  = (IF \E i \in Ids : Present(d, i) /\ d.ent[i].name = v /\ ~NoVal(v)
                                      THEN CHOOSE i \in Ids : Present(d, i) /\ d.ent[i].name = v ELSE NIL)
  /\ \A v \in Nicks  : d.uNick[v]  = (IF \E i \in Ids : Present(d, i) /\ d.ent[i].nick = v /\ ~NoVal(v)
                                      THEN CHOOSE i \in Ids : Present(d, i) /\ d.ent[i].nick = v ELSE NIL)
  /\ \A v \in Grades : d.uGrade[v] = (IF \E i \in Ids : HasExt(d, i) /\ d.ext[i].grade = v /\ ~NoVal(v)
                                      THEN CHOOSE i \in Ids : HasExt(d, i) /\ d.ext[i].grade = v ELSE NIL)
  /\ \A i, j \in Ids : (i # j /\ Present(d, i) /\ Present(d, j)) =>
        /\ d.ent[i].name # d.ent[j].name
        /\ (~NoVal(d.ent[i].nick) => d.ent[i].nick # d.ent[j].nick)
  /\ \A i \in Ids : Present(d, i) => ~NoVal(d.ent[i].name)
SetMirrors(d) ==
  /\ \A r \in Roles : d.sRoles[r] = {i \in Ids : Present(d, i) /\ r \in d.ent[i].roles}
  /\ d.sKeys = {r \in Roles : d.sRoles[r] # {}}
\* C04
FkSound(d) ==
  /\ FkKind(BossMode) # "off" => \A i \in Ids : Present(d, i) =>
        (IF NoVal(d.ent[i].boss) THEN FkNullable(BossMode) ELSE Present(d, d.ent[i].boss))
  /\ FkKind(TeamMode) # "off" => \A i \in Ids : Present(d, i) =>
        (IF NoVal(d.ent[i].team) THEN FkNullable(TeamMode) ELSE d.ent[i].team \in d.tms)
  /\ FkKind(BossMode) = "index" => \A t \in Ids : d.backBoss[t] = {i \in Ids : Present(d, i) /\ Present(d, t) /\ d.ent[i].boss = t}
  /\ FkKind(TeamMode) = "index" => \A t \in Teams : d.backTeam[t] = {i \in Ids : Present(d, i) /\ t \in d.tms /\ d.ent[i].team = t}
  /\ \A t \in Teams : d.chief[t] # NIL => (t \in d.tms /\ HasExt(d, d.chief[t]))
  /\ \A i \in Ids : d.backChief[i] = {t \in Teams : d.chief[t] = i}
\* C05
LinksSymmetric(d) ==
  /\ \A p \in Ids, t \in Teams : (t \in d.lnkPT[p]) <=> (p \in d.lnkTP[t])
  /\ \A p \in Ids, t \in Teams : d.rcPT[p][t] = d.rcTP[t][p]
  /\ \A p \in Ids, t \in Teams : (t \in d.lnkPT[p] \/ d.rcPT[p][t] > 0) => (Present(d, p) /\ t \in d.tms)
  /\ \A p \in Ids, t \in Teams : (t \in d.lnkST[p]) <=> (p \in d.lnkTS[t])
  /\ \A p \in Ids, t \in Teams : t \in d.lnkST[p] => (HasExt(d, p) /\ t \in d.tms)
\* C06
NoTrace(d, id) ==
  /\ d.ent[id] = NoEnt /\ d.ext[id] = NoEnt
  /\ \A v \in Names : d.uName[v] # id
  /\ \A v \in Nicks : d.uNick[v] # id
  /\ \A v \in Grades : d.uGrade[v] # id
  /\ \A r \in Roles : id \notin d.sRoles[r]
  /\ \A i \in Ids : id \notin d.backBoss[i] /\ (Present(d, i) => d.ent[i].boss # id)
  /\ d.backBoss[id] = {} /\ d.lnkPT[id] = {} /\ \A t \in Teams : d.rcPT[id][t] = 0
  /\ \A t \in Teams : id \notin d.backTeam[t] /\ id \notin d.lnkTP[t] /\ d.rcTP[t][id] = 0
  /\ d.backChief[id] = {} /\ d.lnkST[id] = {} /\ \A t \in Teams : d.chief[t] # id /\ id \notin d.lnkTS[t]
NoGhosts(d) == \A i \in Ids : ~Present(d, i) => NoTrace(d, i)
\* C15
ChildWithinParent(d) == \A i \in Ids : HasExt(d, i) => Present(d, i)

Consistent(d) == UniqueMirrors(d) /\ SetMirrors(d) /\ FkSound(d) /\ LinksSymmetric(d) /\ NoGhosts(d) /\ ChildWithinParent(d)

=============================================================================
