------------------------------ MODULE StoreGen ------------------------------
(***************************************************************************)
(* Behaviour generator for the REPLAY engine: the same Next as StoreSys     *)
(* plus a history variable; every finished behaviour is printed as one     *)
(* JSON line  {"steps": [ {"last": ..., "db": ..., "open": ...}, ... ]}     *)
(* that cmd/vreplay executes against the real library, comparing the       *)
(* projected database with "db" after every step.                          *)
(*   bounded-exhaustive: BFS, no VIEW (hist makes every path a state)      *)
(*   random deep:        tlc -simulate num=N -depth Depth+1                *)
(***************************************************************************)
EXTENDS StoreMC, Json, TLCExt

CONSTANTS Depth,
          FailOneIn   \* simulation only: keep a rejected call with probability 1/FailOneIn (1 = keep all; exhaustive runs use 1)

VARIABLES hist, done

Proj(d) == d

GenInit == Init /\ hist = << >> /\ done = FALSE
\* (the simulator evaluates invariants on every successor it generates, not only on the one it picks:
\*  a behaviour is therefore printed from the single successor of its last state)
GenNext == \/ /\ Len(hist) < Depth
              /\ Next
              /\ (last'.res = "fail" /\ FailOneIn > 1) => RandomElement(1..FailOneIn) = 1
              /\ hist' = Append(hist, [last |-> last', db |-> Proj(db'), open |-> txn'.open])
              /\ UNCHANGED done
           \/ /\ Len(hist) = Depth /\ ~done
              /\ done' = TRUE
              /\ UNCHANGED <<vars, hist>>

Emit == done => PrintT(ToJson([steps |-> hist]))

GenSpec == GenInit /\ [][GenNext]_<<vars, hist, done>>
=============================================================================
