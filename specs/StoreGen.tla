------------------------------ MODULE StoreGen ------------------------------
(***************************************************************************)
(* Behaviour generator for the REPLAY engine: the same Next as StoreSys     *)
(* plus a history variable; every finished behaviour is printed as one     *)
(* JSON line  {"steps": [ {"last": ..., "db": ..., "open": ...}, ... ]}     *)
(* that cmd/vreplay executes against the real library, comparing the       *)
(* projected database with "db" after every step.                          *)
(*   bounded-exhaustive: BFS, no VIEW (hist makes every path a state)      *)
(*   random deep:        tlc -simulate num=N -depth Depth+1                *)
(***************************************************************************)
EXTENDS StoreMC, Json, TLCExt

CONSTANTS Depth,
          FailOneIn   \* simulation only: how often a rejected call is preferred (1 in FailOneIn); 0 = no steering (exhaustive generation)

VARIABLES hist, done

Proj(d) == d

GenInit == Init /\ hist = << >> /\ done = FALSE

-----------------------------------------------------------------------------
(* Steering of the random walk (simulation).  TLC's simulator picks uniformly   *)
(* among *all* successor states, and the many equivalent ways of being rejected *)
(* (update of an absent id with each of 100 person records, ...) would drown    *)
(* the behaviours that build state.  The walk therefore first draws the kind of *)
(* call (weighted) and then thins out the rejected instances of that kind.      *)
(* This restricts which successors of Next are offered; it never adds one.      *)

Kinds == {"create", "update", "delete", "deleteWhere", "createTeam", "updateTeam", "deleteTeam", "links", "rc", "commitAction", "preCommit", "callerError", "commit"}
Weight(k) == CASE k = "create" -> 5 [] k = "update" -> 4 [] k = "delete" -> 2 [] k = "createTeam" -> 2 [] k = "deleteTeam" -> 1
               [] k = "links" -> 4 [] k = "rc" -> 4 [] k = "commit" -> 3 [] OTHER -> 1
LinkNames == {"addLinks", "removeLinks", "setLinks", "addLink", "removeLink"} \cap Ops
RcNames   == {"rcInc", "rcDec", "rcSet"} \cap Ops
Active(k) == CASE k \in {"create", "update", "delete", "deleteWhere", "createTeam", "deleteTeam"} -> k \in Ops /\ InTx
               [] k = "updateTeam" -> k \in Ops /\ InTx /\ ChildFeatures
               [] k = "links" -> LinkNames # {} /\ InTx
               [] k = "rc" -> RcNames # {} /\ InTx
               [] k = "commitAction" -> "commitAction" \in Ops /\ txn.acts < 2
               [] k = "preCommit" -> "preCommit" \in Ops /\ PrePool # {} /\ Len(txn.pre) < 2
               [] k = "callerError" -> "callerError" \in Ops
               [] k = "commit" -> TRUE
Bag == {kn \in Kinds \X (1..5) : Active(kn[1]) /\ kn[2] <= Weight(kn[1])}

XFor(via) == IF via = "staff" THEN Exts ELSE {DummyExt}

KindStep(k) ==
  CASE k = "create" -> \E via \in Vias, id \in Ids, lt \in LtPool, veto \in VetoPool, os \in OpSysPool : \E p \in Persons(id) : \E x \in XFor(via) : TxCreate(via, id, p, x, lt, veto, os)
    [] k = "update" -> \E via \in Vias, id \in Ids, lt \in LtPool, f \in FieldSets, veto \in VetoPool, os \in OpSysPool : \E p \in Persons(id) : \E x \in XFor(via) : TxUpdate(via, id, p, x, lt, f, veto, os)
    [] k = "delete" -> \E via \in Vias, id \in Ids, veto \in VetoPool, os \in OpSysPool : TxDelete(via, id, veto, os)
    [] k = "deleteWhere" -> \E via \in Vias, os \in OpSysPool : \E pr \in WherePool(via) : TxDeleteWhere(via, pr, os)
    [] k = "createTeam" -> \E t \in Teams, c \in ChiefPool : TxCreateTeam(t, c)
    [] k = "updateTeam" -> \E t \in Teams, c \in ChiefPool : TxUpdateTeam(t, c)
    [] k = "deleteTeam" -> \E t \in Teams, os \in OpSysPool : TxDeleteTeam(t, os)
    [] k = "links" -> \/ \E n \in LinkNames \cap {"addLinks", "removeLinks", "setLinks"}, p \in Ids, ts \in SUBSET Teams : TxLinks(n, p, ts)
                      \/ \E n \in LinkNames \cap {"addLinks", "removeLinks", "setLinks"}, t \in Teams, ps \in SUBSET Ids : TxLinksT(n, t, ps)
                      \/ \E n \in LinkNames \cap {"addLink", "removeLink"}, p \in Ids, t \in Teams : TxLink1(n, p, t)
                      \/ \E n \in LinkNames \cap {"addLinks", "removeLinks", "setLinks"}, p \in Ids, ts \in SUBSET Teams : TxLinksS(n, p, ts)
                      \/ \E n \in LinkNames \cap {"addLinks", "removeLinks", "setLinks"}, t \in Teams, ps \in SUBSET Ids : TxLinksTS(n, t, ps)
    [] k = "rc" -> \/ \E n \in RcNames \cap {"rcInc", "rcDec"}, p \in Ids, t \in Teams : TxRc(n, p, t, 0)
                   \/ \E p \in Ids, t \in Teams, c \in CountPool : "rcSet" \in RcNames /\ TxRc("rcSet", p, t, c)
    [] k = "commitAction" -> AddCommitAction
    [] k = "preCommit" -> \E o \in PrePool : AddPreCommit(o)
    [] k = "callerError" -> CallerError
    [] k = "commit" -> Commit

\* instances of the drawn kind; a rejected instance is kept with probability 1/FailOneIn, an accepted one always
\* (when nothing is left the walk stutters -- see GenNext -- and draws again)
Steered ==
  \E kn \in {RandomElement(Bag)} :
     /\ KindStep(kn[1])
     \* (a delete that is refused because its cascade reaches a system entity is rare and always kept)
     \* (likewise an update refused for a value another entity holds: the rejection that is raised after the write)
     /\ (last'.res = "fail" /\ kn[1] \notin {"callerError", "commit"} /\ ~(kn[1] \in {"deleteTeam", "deleteWhere"} /\ "system" \in last'.app)
           /\ ~(kn[1] = "update" /\ last'.app = {"dup"}))
           => RandomElement(1..(IF last'.app = {"notfound"} THEN 8 * FailOneIn ELSE FailOneIn)) = 1    \* (calls on absent ids are the least informative refusals)

\* (the simulator evaluates invariants on every successor it generates, not only on the one it picks:
\*  a behaviour is therefore printed from the single successor of its last state)
GenNext == \/ /\ Len(hist) < Depth
              /\ IF FailOneIn = 0 THEN Next
                 ELSE IF ~txn.open THEN \E k \in TxKinds, sy \in SysCtxs : Begin(k, sy)
                 ELSE Steered
              /\ hist' = Append(hist, [last |-> last', db |-> Proj(db'), open |-> txn'.open])
              /\ UNCHANGED done
           \/ /\ Len(hist) < Depth /\ txn.open /\ FailOneIn # 0      \* simulation: draw again
              /\ UNCHANGED <<vars, hist, done>>
           \/ /\ Len(hist) = Depth /\ ~done
              /\ done' = TRUE
              /\ UNCHANGED <<vars, hist>>

Emit == done => PrintT(ToJson([steps |-> hist]))

GenSpec == GenInit /\ [][GenNext]_<<vars, hist, done>>
=============================================================================
