------------------------------ MODULE StoreMC ------------------------------
(* Root module for the exhaustive configurations MC_*.cfg of the store model. *)
EXTENDS StoreSys

\* sequences cannot be written in a .cfg file
Order3 == <<"p1", "p2", "p3">>
Order2 == <<"p1", "p2">>
Order5 == <<"p1", "p2", "p3", "p4", "p5">>
\* field checkers tried by the generator, per family (AllFields = nil checker = full update)
FS_All  == {AllFields}
FS_C03  == {AllFields, {"name"}, {"roles"}, {"nick"}}
FS_C03x == {AllFields, {"name"}, {"grade"}, {"roles", "grade"}}
FS_C04  == {AllFields, {"boss"}, {"team"}, {"name"}}
FS_C05  == {AllFields, {"teams"}, {"name"}}
FS_C06  == {AllFields, {"boss", "team"}, {"roles"}}
FS_C07  == {AllFields, {"name"}, {"name", "nick", "roles"}}
FS_C08  == {AllFields, {"nick"}, {"grade"}}
FS_C15  == {AllFields, {"name"}, {"grade"}, {"lead", "nick"}}
FS_C16  == {AllFields, {"name"}, {"nick", "team"}}
=============================================================================
