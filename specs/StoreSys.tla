------------------------------ MODULE StoreSys ------------------------------
(***************************************************************************)
(* The transition system over Store.tla: transactions of a boltz.Db        *)
(* (Update / Batch) whose bodies are sequences of store calls.             *)
(*                                                                         *)
(*   Begin ; call* ; (Commit | CallerError)                                *)
(*                                                                         *)
(* A call that is rejected ends the transaction in the same step: the      *)
(* body returns the error, Db.Update rolls back (db' = snapshot).          *)
(* `last` is an observation variable: the call just made, its outcome      *)
(* (ok/fail + the set of error classes that apply), its return value and,  *)
(* for Commit, what has to be delivered to listeners.  It is hidden by the *)
(* VIEW of the exhaustive configs.                                         *)
(***************************************************************************)
EXTENDS Store

CONSTANTS
  Ops,        \* enabled calls
  MaxOps,     \* store calls per transaction
  MaxTx,      \* transactions per behaviour
  TxKinds,    \* subset of {"update", "batch"}
  SysCtxs,    \* subset of BOOLEAN : system mutate context or ordinary one
  Vias,       \* subset of {"people", "staff"} : the store a person call goes through
  NamePool, IdNames, NickPool, RolePool, BossPool, TeamPool, SysPool, LeadPool, GradePool, LtPool,
  FieldSets,  \* field checkers to try on update (AllFields = nil checker)
  VetoPool,   \* subset of BOOLEAN : arm the vetoing entity constraint for the call
  OpSysPool,  \* subset of BOOLEAN : the call is made with ctx.GetSystemContext() derived from the transaction's context
  PrePool,    \* subset of {"ok", "fail"} : pre-commit actions to add
  ChiefPool,  \* values of teams.chief tried on createTeam / updateTeam (NIL, ids); {NIL} when ChildFeatures is off
  WhereKinds, \* subset of {"all", "name", "grade"} : the filters DeleteWhere is called with
  CountPool,  \* counts for SetLinkCount
  MaxRc,      \* bound on a reference count (rcInc is not generated beyond it)
  IdOrder     \* the ids in the byte order of their real spellings (cascade visits referrers in this order)

VARIABLES db, txn, last, ntx

vars == <<db, txn, last, ntx>>

Closed == [open |-> FALSE, kind |-> "", sys |-> FALSE, snap |-> InitDb, evs |-> << >>, acts |-> 0, pre |-> << >>, nops |-> 0]

Init == /\ db = InitDb
        /\ txn = Closed
        /\ ntx = 0
        /\ last = [op |-> "init"]

Persons(id) == [ name : NamePool \cup (IF IdNames THEN {id} ELSE {}), nick : NickPool, roles : RolePool,
                 boss : BossPool, team : TeamPool, sys : SysPool ]
Exts == [lead : LeadPool, grade : GradePool]
DummyExt == [lead |-> FALSE, grade |-> ""]     \* the child part is not looked at when the call goes through the parent store

InTx  == txn.open /\ txn.nops < MaxOps

\* epilogue shared by every store call: r = result of the pure operator, o = description of the call
Call(r, o) ==
  IF r.errs = {}
  THEN /\ db' = r.db
       /\ txn' = [txn EXCEPT !.evs = @ \o r.evs, !.nops = @ + 1]
       /\ last' = [op |-> o.op, a |-> o.a, res |-> "ok", app |-> {}, ret |-> r.ret, tx |-> "open"]
  ELSE /\ db' = txn.snap
       /\ txn' = Closed
       /\ last' = [op |-> o.op, a |-> o.a, res |-> "fail", app |-> r.errs, ret |-> NIL, tx |-> "aborted"]

Begin(kind, sys) ==
  /\ ~txn.open /\ ntx < MaxTx
  /\ txn' = [open |-> TRUE, kind |-> kind, sys |-> sys, snap |-> db, evs |-> << >>, acts |-> 0, pre |-> << >>, nops |-> 0]
  /\ ntx' = ntx + 1
  /\ last' = [op |-> "begin", a |-> [kind |-> kind, sys |-> sys], res |-> "ok", app |-> {}, ret |-> NIL, tx |-> "open"]
  /\ UNCHANGED db

TxCreate(via, id, p, x, lt, veto, osys) ==
  /\ "create" \in Ops /\ InTx
  \* DESIGN 3.2: Create through the child store is issued for fresh ids (or ids that already have child data) only
  /\ via = "staff" => (~Present(db, id) \/ HasExt(db, id))
  /\ Call(CreateOp(db, txn.sys \/ osys, via, id, p, IF via = "staff" THEN x ELSE NoEnt, lt, veto),
          [op |-> "create", a |-> [via |-> via, id |-> id, p |-> p, x |-> IF via = "staff" THEN x ELSE NoEnt, lt |-> lt, veto |-> veto, osys |-> osys]])
  /\ UNCHANGED ntx

TxUpdate(via, id, p, x, lt, fields, veto, osys) ==
  /\ "update" \in Ops /\ InTx
  /\ Call(UpdateOp(db, txn.sys \/ osys, via, id, p, x, lt, fields, veto),
          [op |-> "update", a |-> [via |-> via, id |-> id, p |-> p, x |-> x, lt |-> lt, fields |-> fields, veto |-> veto, osys |-> osys]])
  /\ UNCHANGED ntx

TxDelete(via, id, veto, osys) ==
  /\ "delete" \in Ops /\ InTx
  /\ Call(DeleteOp(db, txn.sys \/ osys, id, veto, IdOrder), [op |-> "delete", a |-> [via |-> via, id |-> id, veto |-> veto, osys |-> osys]])
  /\ UNCHANGED ntx

WherePool(via) == (IF "all" \in WhereKinds THEN {<<"all", "">>} ELSE {})
                  \cup (IF "name" \in WhereKinds THEN {<<"name", v>> : v \in (NamePool \cup (IF IdNames THEN Ids ELSE {})) \ BadNames} ELSE {})
                  \cup (IF "grade" \in WhereKinds /\ via = "staff" THEN {<<"grade", g>> : g \in GradePool} ELSE {})
TxDeleteWhere(via, pred, osys) ==
  /\ "deleteWhere" \in Ops /\ InTx
  /\ Call(DeleteWhereOp(db, txn.sys \/ osys, via, pred, IdOrder), [op |-> "deleteWhere", a |-> [via |-> via, k |-> pred[1], v |-> pred[2], osys |-> osys]])
  /\ UNCHANGED ntx

TxCreateTeam(t, chief) ==
  /\ "createTeam" \in Ops /\ InTx
  /\ Call(CreateTeamOp(db, t, chief), [op |-> "createTeam", a |-> [id |-> t, chief |-> chief]])
  /\ UNCHANGED ntx

TxUpdateTeam(t, chief) ==
  /\ "updateTeam" \in Ops /\ InTx /\ ChildFeatures
  /\ Call(UpdateTeamOp(db, t, chief), [op |-> "updateTeam", a |-> [id |-> t, chief |-> chief]])
  /\ UNCHANGED ntx

\* the link collection registered on the child store, from either side
TxLinksS(name, p, ts) ==
  /\ name \in Ops /\ InTx /\ ChildFeatures
  /\ Call(LinksS(db, name, p, ts), [op |-> name, a |-> [side |-> "staff", id |-> p, keys |-> ts]])
  /\ UNCHANGED ntx
TxLinksTS(name, t, ps) ==
  /\ name \in Ops /\ InTx /\ ChildFeatures
  /\ Call(LinksTS(db, name, t, ps), [op |-> name, a |-> [side |-> "squads", id |-> t, keys |-> ps]])
  /\ UNCHANGED ntx

TxDeleteTeam(t, osys) ==
  /\ "deleteTeam" \in Ops /\ InTx
  /\ Call(DeleteTeamOp(db, txn.sys \/ osys, t, IdOrder), [op |-> "deleteTeam", a |-> [id |-> t, osys |-> osys]])
  /\ UNCHANGED ntx

TxLinks(name, p, ts) ==     \* people side: addLinks / removeLinks / setLinks
  /\ name \in Ops /\ InTx
  /\ Call(CASE name = "addLinks"    -> AddLinksP(db, p, ts)
            [] name = "removeLinks" -> RemoveLinksP(db, p, ts)
            [] name = "setLinks"    -> SetLinksP(db, p, ts),
          [op |-> name, a |-> [side |-> "people", id |-> p, keys |-> ts]])
  /\ UNCHANGED ntx

TxLinksT(name, t, ps) ==    \* teams side
  /\ name \in Ops /\ InTx
  /\ Call(CASE name = "addLinks"    -> AddLinksT(db, t, ps)
            [] name = "removeLinks" -> RemoveLinksT(db, t, ps)
            [] name = "setLinks"    -> SetLinksT(db, t, ps),
          [op |-> name, a |-> [side |-> "teams", id |-> t, keys |-> ps]])
  /\ UNCHANGED ntx

TxLink1(name, p, t) ==      \* addLink / removeLink (single, reports "changed")
  /\ name \in Ops /\ InTx
  /\ Call(CASE name = "addLink" -> AddLinkP(db, p, t) [] name = "removeLink" -> RemoveLinkP(db, p, t),
          [op |-> name, a |-> [id |-> p, key |-> t]])
  /\ UNCHANGED ntx

TxRc(name, p, t, c) ==      \* rcInc / rcDec / rcSet
  /\ name \in Ops /\ InTx
  /\ (name = "rcInc" => db.rcPT[p][t] < MaxRc)
  /\ Call(CASE name = "rcInc" -> RcIncP(db, p, t) [] name = "rcDec" -> RcDecP(db, p, t) [] name = "rcSet" -> RcSetP(db, p, t, c),
          [op |-> name, a |-> [id |-> p, key |-> t, count |-> c]])
  /\ UNCHANGED ntx

AddCommitAction ==
  /\ "commitAction" \in Ops /\ txn.open /\ txn.acts < 2
  /\ txn' = [txn EXCEPT !.acts = @ + 1]
  /\ last' = [op |-> "commitAction", a |-> [n |-> txn.acts + 1], res |-> "ok", app |-> {}, ret |-> NIL, tx |-> "open"]
  /\ UNCHANGED <<db, ntx>>

AddPreCommit(outcome) ==
  /\ "preCommit" \in Ops /\ txn.open /\ Len(txn.pre) < 2
  /\ txn' = [txn EXCEPT !.pre = Append(@, outcome)]
  /\ last' = [op |-> "preCommit", a |-> [outcome |-> outcome], res |-> "ok", app |-> {}, ret |-> NIL, tx |-> "open"]
  /\ UNCHANGED <<db, ntx>>

\* the body returns an error of its own
CallerError ==
  /\ "callerError" \in Ops /\ txn.open
  /\ db' = txn.snap /\ txn' = Closed
  /\ last' = [op |-> "callerError", a |-> [k |-> 0], res |-> "fail", app |-> {"caller"}, ret |-> NIL, tx |-> "aborted"]
  /\ UNCHANGED ntx

\* the body returns nil: pre-commit actions run, then bbolt commits and the commit handlers fire
Commit ==
  /\ txn.open
  /\ IF \E k \in 1..Len(txn.pre) : txn.pre[k] = "fail"
     THEN /\ db' = txn.snap
          /\ last' = [op |-> "commit", a |-> [k |-> 0], res |-> "fail", app |-> {"precommit"}, ret |-> NIL, tx |-> "aborted"]
     ELSE /\ db' = db
          /\ last' = [op |-> "commit", a |-> [k |-> 0], res |-> "ok", app |-> {}, ret |-> NIL, tx |-> "committed",
                      evs |-> txn.evs, acts |-> txn.acts, txc |-> IF txn.kind = "update" THEN 1 ELSE 0]
  /\ txn' = Closed
  /\ UNCHANGED ntx

Next ==
  \/ \E k \in TxKinds, s \in SysCtxs : Begin(k, s)
  \/ \E via \in Vias, id \in Ids, lt \in LtPool, veto \in VetoPool, os \in OpSysPool : \E p \in Persons(id) :
        \E x \in (IF via = "staff" THEN Exts ELSE {DummyExt}) : TxCreate(via, id, p, x, lt, veto, os)
  \/ \E via \in Vias, id \in Ids, lt \in LtPool, f \in FieldSets, veto \in VetoPool, os \in OpSysPool : \E p \in Persons(id) :
        \E x \in (IF via = "staff" THEN Exts ELSE {DummyExt}) : TxUpdate(via, id, p, x, lt, f, veto, os)
  \/ \E via \in Vias, id \in Ids, veto \in VetoPool, os \in OpSysPool : TxDelete(via, id, veto, os)
  \/ \E via \in Vias, os \in OpSysPool : \E pr \in WherePool(via) : TxDeleteWhere(via, pr, os)
  \/ \E t \in Teams : (\E c \in ChiefPool : TxCreateTeam(t, c) \/ TxUpdateTeam(t, c)) \/ \E os \in OpSysPool : TxDeleteTeam(t, os)
  \/ \E n \in {"addLinks", "removeLinks", "setLinks"}, p \in Ids, ts \in SUBSET Teams : TxLinksS(n, p, ts)
  \/ \E n \in {"addLinks", "removeLinks", "setLinks"}, t \in Teams, ps \in SUBSET Ids : TxLinksTS(n, t, ps)
  \/ \E n \in {"addLinks", "removeLinks", "setLinks"}, p \in Ids, ts \in SUBSET Teams : TxLinks(n, p, ts)
  \/ \E n \in {"addLinks", "removeLinks", "setLinks"}, t \in Teams, ps \in SUBSET Ids : TxLinksT(n, t, ps)
  \/ \E n \in {"addLink", "removeLink"}, p \in Ids, t \in Teams : TxLink1(n, p, t)
  \/ \E n \in {"rcInc", "rcDec"}, p \in Ids, t \in Teams : TxRc(n, p, t, 0)
  \/ \E p \in Ids, t \in Teams, c \in CountPool : TxRc("rcSet", p, t, c)
  \/ AddCommitAction
  \/ \E o \in PrePool : AddPreCommit(o)
  \/ CallerError
  \/ Commit

Spec == Init /\ [][Next]_vars

-----------------------------------------------------------------------------
(* Properties                                                              *)

\* VIEWs: `last` is observation only; `ntx` only bounds generated behaviours; the pending events of the open
\* transaction matter only for what Commit delivers (kept by ViewEvs, used by the C08 configuration)
ViewNoObs == <<db, [txn EXCEPT !.evs = << >>]>>
ViewEvs   == <<db, txn>>

\* C03 C04 C05 C06 C15: the explicit indexes / back-references / link sides always mirror the entities,
\* call by call (the code maintains them inside each call) and in particular in every committed state
InvConsistent == Consistent(db)
InvC03 == UniqueMirrors(db) /\ SetMirrors(db)
InvC04 == FkSound(db)
InvC05 == LinksSymmetric(db)
InvC06 == NoGhosts(db)
InvC15 == ChildWithinParent(db)

\* C07: a failing step leaves exactly the state the transaction started from, and closes it
AbortRestores == [][(last'.res = "fail" /\ txn.open) => (db' = txn.snap /\ ~txn'.open)]_vars
\* C07/C08: nothing is delivered unless the commit succeeded; what is delivered is what the successful calls produced
DeliveredOnlyOnCommit == [][(last'.op = "commit" /\ last'.res = "ok") => (last'.evs = txn.evs /\ db' = db)]_vars

\* C16: the system flag never changes while the entity exists, and an ordinary context never changes a system entity
SysFlagFixed ==
  [][\A i \in Ids : (Present(db, i) /\ Present(db', i) /\ txn'.open) => db'.ent[i].sys = db.ent[i].sys]_vars
OrdinaryCtxCannotTouchSystem ==
  \* (a step that rolls the transaction back restores the pre-transaction state, whoever made the earlier calls)
  [][(txn.open /\ ~txn.sys /\ last'.res = "ok" /\ ~(last'.op \in {"create", "update", "delete", "deleteTeam"} /\ last'.a.osys))
       => \A i \in Ids : (Present(db, i) /\ db.ent[i].sys /\ (SysScope = "parent" \/ HasExt(db, i))) => (db'.ent[i] = db.ent[i] /\ db'.ext[i] = db.ext[i])]_vars

=============================================================================
