----------------------------- MODULE StoreTrace -----------------------------
(***************************************************************************)
(* Trace validation for the store model (the direction opposite to the     *)
(* replay of TLC-generated behaviours): a driver makes random calls on the *)
(* real stores -- universes larger than the exhaustive runs can afford,     *)
(* every feature wired at once, hostile ids -- and logs one line per call:  *)
(*     {"op": .., "a": arguments, "res": "ok"|"fail", "cls": error class,   *)
(*      "ret": return value, "db": the complete abstract state afterwards}  *)
(* In a sequential library the linearization point of a call is its        *)
(* return, and the abstract state is small enough to be logged in full.     *)
(* TLC then checks that every line is a step of StoreSys!Next: the action   *)
(* named by the line, with the logged arguments, must be enabled in the     *)
(* state reached so far and must produce exactly the logged result and the  *)
(* logged state.  The first line that is not such a step stops the run and  *)
(* is reported with what the specification would have produced instead.     *)
(* Traces are concatenated (a "reset" line starts the next one on an empty  *)
(* database).                                                               *)
(***************************************************************************)
EXTENDS StoreMC, Json

CONSTANTS TraceFile

Trace == ndJsonDeserialize(TraceFile)

VARIABLE l       \* the next line to explain
tvars == <<vars, l>>

ToSet(s) == {s[i] : i \in 1..Len(s)}
JPerson(o) == [name |-> o.name, nick |-> o.nick, roles |-> ToSet(o.roles), boss |-> o.boss, team |-> o.team, sys |-> o.sys]
JEnt(o) == IF "none" \in DOMAIN o THEN NoEnt ELSE JPerson(o)
JExt(o) == IF "none" \in DOMAIN o THEN NoEnt ELSE [lead |-> o.lead, grade |-> o.grade]
JLt(s) == IF ToSet(s) = NoLt THEN NoLt ELSE ToSet(s)

\* the logged abstract state as a value of the model (anything the driver could not express in the model's
\* vocabulary -- an unknown key, a value outside the universes -- is listed under "extra" and rejects the line)
JDb(j) == [ ent      |-> [i \in Ids |-> JEnt(j.ent[i])],
            ext      |-> [i \in Ids |-> JExt(j.ext[i])],
            tms      |-> ToSet(j.tms),
            uName    |-> [v \in Names |-> j.uName[v]],
            uNick    |-> [v \in Nicks |-> j.uNick[v]],
            uGrade   |-> [v \in Grades |-> j.uGrade[v]],
            sRoles   |-> [r \in Roles |-> ToSet(j.sRoles[r])],
            sKeys    |-> ToSet(j.sKeys),
            backBoss |-> [i \in Ids |-> ToSet(j.backBoss[i])],
            backTeam |-> [t \in Teams |-> ToSet(j.backTeam[t])],
            lnkPT    |-> [i \in Ids |-> ToSet(j.lnkPT[i])],
            lnkTP    |-> [t \in Teams |-> ToSet(j.lnkTP[t])],
            rcPT     |-> [i \in Ids |-> [t \in Teams |-> j.rcPT[i][t]]],
            rcTP     |-> [t \in Teams |-> [i \in Ids |-> j.rcTP[t][i]]],
            chief    |-> [t \in Teams |-> j.chief[t]],
            backChief |-> [i \in Ids |-> ToSet(j.backChief[i])],
            lnkST    |-> [i \in Ids |-> ToSet(j.lnkST[i])],
            lnkTS    |-> [t \in Teams |-> ToSet(j.lnkTS[t])] ]

\* the error classes the caller can tell apart (the classification functions of the library): mirror of storerun.Coarsen
Coarse(op, app) == { CASE a \in {"notfound", "fkMissing"} -> "notfound"
                       [] a \in {"refExists", "dup", "veto", "caller", "precommit"} -> a
                       [] a = "system" -> (IF op = "create" THEN "other" ELSE "api")
                       [] OTHER -> "other" : a \in app }

\* the step of the specification a line claims to be
Step(e) ==
  LET a == e.a IN
  CASE e.op = "begin"        -> Begin(a.kind, a.sys)
    [] e.op = "create"       -> TxCreate(a.via, a.id, JPerson(a.p), IF a.via = "staff" THEN JExt(a.x) ELSE DummyExt, JLt(a.lt), a.veto, a.osys)
    [] e.op = "update"       -> TxUpdate(a.via, a.id, JPerson(a.p), IF a.via = "staff" THEN JExt(a.x) ELSE DummyExt, JLt(a.lt), ToSet(a.fields), a.veto, a.osys)
    [] e.op = "delete"       -> TxDelete(a.via, a.id, a.veto, a.osys)
    [] e.op = "deleteWhere"  -> TxDeleteWhere(a.via, <<a.k, a.v>>, a.osys)
    [] e.op = "createTeam"   -> TxCreateTeam(a.id, a.chief)
    [] e.op = "updateTeam"   -> TxUpdateTeam(a.id, a.chief)
    [] e.op = "deleteTeam"   -> TxDeleteTeam(a.id, a.osys)
    [] e.op \in {"addLinks", "removeLinks", "setLinks"} ->
         (CASE a.side = "teams" -> TxLinksT(e.op, a.id, ToSet(a.keys)) [] a.side = "people" -> TxLinks(e.op, a.id, ToSet(a.keys))
            [] a.side = "staff" -> TxLinksS(e.op, a.id, ToSet(a.keys)) [] a.side = "squads" -> TxLinksTS(e.op, a.id, ToSet(a.keys)))
    [] e.op \in {"addLink", "removeLink"} -> TxLink1(e.op, a.id, a.key)
    [] e.op \in {"rcInc", "rcDec"} -> TxRc(e.op, a.id, a.key, 0)
    [] e.op = "rcSet"        -> TxRc("rcSet", a.id, a.key, a.count)
    [] e.op = "callerError"  -> CallerError
    [] e.op = "commit"       -> Commit

\* events as the harness renders them: store:type:id:payload
PlStr(pl) == IF Len(pl) = 0 THEN "" ELSE IF Len(pl) = 2 THEN pl[1] \o "|" \o pl[2]
             ELSE pl[1] \o "|" \o pl[2] \o "|" \o pl[3] \o "|" \o (IF pl[4] THEN "true" ELSE "false")
EvStr(ev) == ev.st \o ":" \o ev.ty \o ":" \o ev.id \o ":" \o PlStr(ev.pl)
Count(seq, x) == Cardinality({i \in 1..Len(seq) : seq[i] = x})
SameBag(a, b) == Len(a) = Len(b) /\ \A x \in ToSet(a) \cup ToSet(b) : Count(a, x) = Count(b, x)
\* what the listeners were handed by the end of the line: everything the committed transaction produced, exactly once -- and nothing
\* while a transaction is open or after it was rolled back
EventsAgree(e) == IF e.op = "commit" /\ last'.res = "ok"
                  THEN SameBag([i \in 1..Len(last'.evs) |-> EvStr(last'.evs[i])], e.evs) /\ e.txc = last'.txc
                  ELSE e.evs = << >> /\ e.txc = 0

Differs(e) == LET j == JDb(e.db) IN {k \in DOMAIN db' : db'[k] # j[k]}

Agrees(e) ==
  /\ last'.res = e.res
  /\ ~e.lost                 \* the transaction function returned an error and Db.Update returned nil
  \* the class of the error matters where a property names it (duplicate value, reference exists, veto); elsewhere any error will do
  /\ (e.res = "fail" /\ last'.app # {} /\ last'.app \subseteq {"dup", "refExists", "veto"}) => e.cls \in Coarse(e.op, last'.app)
  /\ (e.res = "ok" /\ e.op \in {"addLink", "removeLink", "rcInc", "rcDec", "rcSet"}) => ToString(last'.ret) = e.ret
  \* (e.db.extra lists what the recorder could not express in the model's vocabulary: outside the specification, printed on a rejection)
  /\ db' = JDb(e.db)
  /\ EventsAgree(e)

TraceInit == Init /\ l = 1

TraceReset == /\ l <= Len(Trace) /\ Trace[l].op = "reset"
              /\ db' = InitDb /\ txn' = Closed /\ last' = [op |-> "init"] /\ ntx' = 0
              /\ l' = l + 1

TraceStep == /\ l <= Len(Trace) /\ Trace[l].op # "reset"
             /\ Step(Trace[l])
             /\ IF Agrees(Trace[l]) THEN TRUE
                ELSE PrintT(<<"REJECT", l, Trace[l].op, "model", [res |-> last'.res, app |-> last'.app, ret |-> last'.ret],
                              "logged", [res |-> Trace[l].res, cls |-> Trace[l].cls, ret |-> Trace[l].ret],
                              "extra", Trace[l].db.extra, "state-differs-in", Differs(Trace[l]),
                              "events", IF EventsAgree(Trace[l]) THEN "agree" ELSE "differ">>) /\ FALSE
             /\ l' = l + 1

TraceNext == TraceReset \/ TraceStep
TraceSpec == TraceInit /\ [][TraceNext]_tvars

\* every invariant of the specification, evaluated on the states the implementation actually went through
TraceInv == InvC03 /\ InvC04 /\ InvC05 /\ InvC06 /\ InvC15

\* progress: the run is accepted when every line was explained (one state per line plus the initial state; the trace spec is
\* deterministic: every line has at most one successor)
Reached == TLCSet(1, l)
TraceAccepted == IF TLCGet("stats").diameter - 1 = Len(Trace) THEN PrintT(<<"ACCEPTED", Len(Trace)>>)
                 ELSE PrintT(<<"STOPPED-AT", TLCGet("stats").diameter, "of", Len(Trace)>>) /\ FALSE
=============================================================================
